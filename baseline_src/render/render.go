//-----------------------------------------------------------------------------
/*

Top-Level Rendering Routines

*/
//-----------------------------------------------------------------------------

package render

import (
	"fmt"
	"sync"

	"github.com/deadsy/sdfx/sdf"
)

//-----------------------------------------------------------------------------

// Render3 renders a 3D triangle mesh over the bounding volume of an sdf3.
type Render3 interface {
	Render(sdf3 sdf.SDF3, output sdf.Triangle3Writer)
	Info(sdf3 sdf.SDF3) string
}

// Render2 renders a 2D line set over the bounding area of an sdf2.
type Render2 interface {
	Render(s sdf.SDF2, output sdf.Line2Writer)
	Info(s sdf.SDF2) string
}

//-----------------------------------------------------------------------------

// ToTriangles renders an SDF3 to a triangle mesh.
func ToTriangles(
	s sdf.SDF3, // sdf3 to render
	r Render3, // rendering method
) []*sdf.Triangle3 {
	triangles := make([]*sdf.Triangle3, 0)
	var wg sync.WaitGroup
	// To write the triangles.
	output := sdf.WriteTriangles(&wg, &triangles)
	// Run the renderer.
	r.Render(s, sdf.NewTriangle3Buffer(output))
	// Stop the writer reading on the channel.
	close(output)
	// Wait for the write to complete.
	wg.Wait()
	// return all the triangles
	return triangles
}

//-----------------------------------------------------------------------------

// ToSTL renders an SDF3 to an STL file.
func ToSTL(
	s sdf.SDF3, // sdf3 to render
	path string, // path to filename
	r Render3, // rendering method
) {
	fmt.Printf("rendering %s (%s)\n", path, r.Info(s))
	// write the triangles to an STL file
	var wg sync.WaitGroup
	output, err := writeSTL(&wg, path)
	if err != nil {
		fmt.Printf("%s", err)
		return
	}
	// run the renderer
	r.Render(s, sdf.NewTriangle3Buffer(output))
	// stop the STL writer reading on the channel
	close(output)
	// wait for the file write to complete
	wg.Wait()
}

//-----------------------------------------------------------------------------

// To3MF renders an SDF3 to a 3MF file.
func To3MF(
	s sdf.SDF3, // sdf3 to render
	path string, // path to filename
	r Render3, // rendering method
) {
	fmt.Printf("rendering %s (%s)\n", path, r.Info(s))
	// write the triangles to a 3MF file
	var wg sync.WaitGroup
	output, err := write3MF(&wg, path)
	if err != nil {
		fmt.Printf("%s", err)
		return
	}
	// run the renderer
	r.Render(s, sdf.NewTriangle3Buffer(output))
	// stop the STL writer reading on the channel
	close(output)
	// wait for the file write to complete
	wg.Wait()
}

//-----------------------------------------------------------------------------

// ToDXF renders an SDF2 to a DXF file.
func ToDXF(
	s sdf.SDF2, // sdf2 to render
	path string, // path to filename
	r Render2, // rendering method
) {
	fmt.Printf("rendering %s (%s)\n", path, r.Info(s))
	// write the line segments to a DXF file
	var wg sync.WaitGroup
	output, err := writeDXF(&wg, path)
	if err != nil {
		fmt.Printf("%s", err)
		return
	}
	// run the renderer
	r.Render(s, sdf.NewLine2Buffer(output))
	// stop the DXF writer reading on the channel
	close(output)
	// wait for the file write to complete
	wg.Wait()
}

//-----------------------------------------------------------------------------

const svgLineStyle = "fill:none;stroke:black;stroke-width:0.1"

// ToSVG renders an SDF2 to an SVG file.
func ToSVG(
	s sdf.SDF2, // sdf2 to render
	path string, // path to filename
	r Render2, // rendering method
) {
	fmt.Printf("rendering %s (%s)\n", path, r.Info(s))
	// write the line segments to an SVG file
	var wg sync.WaitGroup
	output, err := writeSVG(&wg, path, svgLineStyle)
	if err != nil {
		fmt.Printf("%s", err)
	}
	// run the renderer
	r.Render(s, sdf.NewLine2Buffer(output))
	// stop the SVG writer reading on the channel
	close(output)
	// wait for the file write to complete
	wg.Wait()
}

//-----------------------------------------------------------------------------
