//-----------------------------------------------------------------------------
/*

Output a 3D triangle mesh to a 3MF file.

https://3mf.io/specification/

Notes:

3D manufacturing files (3mf) generally contain meta data about the 3d object.
The files produced by this code are very basic. They are the equivalent of an
STL in 3MF format. That is: just the triangle mesh with a default 1mm unit.

File sizes for 3MF are around 7x smaller than an STL with the same mesh.

3MF files are not identical from run to run. 3MF files are a zipped archive.
The contents of the archive *are* the same but the containing zip file differs.

*/
//-----------------------------------------------------------------------------

package render

import (
	"fmt"
	"sync"

	"github.com/deadsy/sdfx/sdf"
	v3 "github.com/deadsy/sdfx/vec/v3"
	"github.com/hpinc/go3mf"
)

//-----------------------------------------------------------------------------

// toPoint3D converts a 3D float vector to a go3mf 3D vector.
func toPoint3D(a v3.Vec) go3mf.Point3D {
	return go3mf.Point3D{float32(a.X), float32(a.Y), float32(a.Z)}
}

//-----------------------------------------------------------------------------

// write3MF writes a stream of triangles to a 3MF file.
func write3MF(wg *sync.WaitGroup, path string) (chan<- []*sdf.Triangle3, error) {

	f, err := go3mf.CreateWriter(path)
	if err != nil {
		return nil, err
	}

	// External code writes triangles to this channel.
	// This goroutine reads the channel and writes triangles to the file.
	c := make(chan []*sdf.Triangle3)

	var model go3mf.Model
	var mesh go3mf.Mesh

	// add the mesh to the model
	obj := &go3mf.Object{Mesh: &mesh}
	obj.ID = model.Resources.UnusedID()
	model.Resources.Objects = append(model.Resources.Objects, obj)
	model.Build.Items = append(model.Build.Items, &go3mf.Item{ObjectID: obj.ID})

	// use the mesh builder to de-dup the vertices
	mb := go3mf.NewMeshBuilder(&mesh)

	wg.Add(1)
	go func() {
		defer wg.Done()
		defer f.Close()
		// read triangles from the channel and add them to the model
		for ts := range c {
			for _, t := range ts {
				v1 := mb.AddVertex(toPoint3D(t[0]))
				v2 := mb.AddVertex(toPoint3D(t[1]))
				v3 := mb.AddVertex(toPoint3D(t[2]))
				mesh.Triangles.Triangle = append(mesh.Triangles.Triangle, go3mf.Triangle{V1: v1, V2: v2, V3: v3})
			}
		}
		// encode and write out the file
		if err := f.Encode(&model); err != nil {
			fmt.Printf("%s\n", err)
			return
		}
	}()

	return c, nil
}

//-----------------------------------------------------------------------------
