//-----------------------------------------------------------------------------
/*

Marching Cubes

Convert an SDF3 to a triangle mesh.

*/
//-----------------------------------------------------------------------------

package render

import (
	"fmt"
	"math"
	"runtime"
	"sync"

	"github.com/deadsy/sdfx/sdf"
	"github.com/deadsy/sdfx/vec/conv"
	v3 "github.com/deadsy/sdfx/vec/v3"
	"github.com/deadsy/sdfx/vec/v3i"
)

//-----------------------------------------------------------------------------

// evalReq is used for processing evaluations in parallel.
// A slice of V3 is evaluated with fn, the result is stored in out.
type evalReq struct {
	out []float64
	p   []v3.Vec
	fn  func(v3.Vec) float64
	wg  *sync.WaitGroup
}

var evalProcessCh = make(chan evalReq, 100)

// evalRoutines starts a set of concurrent evaluation routines.
func evalRoutines() {
	for i := 0; i < runtime.NumCPU(); i++ {
		go func() {
			var i int
			var p v3.Vec
			for r := range evalProcessCh {
				for i, p = range r.p {
					r.out[i] = r.fn(p)
				}
				r.wg.Done()
			}
		}()
	}
}

//-----------------------------------------------------------------------------

type layerYZ struct {
	base  v3.Vec    // base coordinate of layer
	inc   v3.Vec    // dx, dy, dz for each step
	steps v3i.Vec   // number of x,y,z steps
	val0  []float64 // SDF values for x layer
	val1  []float64 // SDF values for x + dx layer
}

func newLayerYZ(base, inc v3.Vec, steps v3i.Vec) *layerYZ {
	return &layerYZ{base, inc, steps, nil, nil}
}

// Evaluate the SDF for a given XY layer
func (l *layerYZ) Evaluate(s sdf.SDF3, x int) {

	// Swap the layers
	l.val0, l.val1 = l.val1, l.val0

	ny, nz := l.steps.Y, l.steps.Z
	dx, dy, dz := l.inc.X, l.inc.Y, l.inc.Z

	// allocate storage
	if l.val1 == nil {
		l.val1 = make([]float64, (ny+1)*(nz+1))
	}

	// setup the loop variables
	var p v3.Vec
	p.X = l.base.X + float64(x)*dx

	// define the base struct for requesting evaluation
	eReq := evalReq{
		wg:  new(sync.WaitGroup),
		fn:  s.Evaluate,
		out: l.val1,
	}

	// evaluate the layer
	p.Y = l.base.Y

	// Performance doesn't seem to improve past 100.
	const batchSize = 100

	eReq.p = make([]v3.Vec, 0, batchSize)
	for y := 0; y < ny+1; y++ {
		p.Z = l.base.Z
		for z := 0; z < nz+1; z++ {
			eReq.p = append(eReq.p, p)
			if len(eReq.p) == batchSize {
				eReq.wg.Add(1)
				evalProcessCh <- eReq
				eReq.out = eReq.out[batchSize:]       // shift the output slice for processing
				eReq.p = make([]v3.Vec, 0, batchSize) // create a new slice for the next batch
			}
			p.Z += dz
		}
		p.Y += dy
	}

	// send any remaining points for processing
	if len(eReq.p) > 0 {
		eReq.wg.Add(1)
		evalProcessCh <- eReq
	}

	// Wait for all processing to complete before returning
	eReq.wg.Wait()
}

func (l *layerYZ) Get(x, y, z int) float64 {
	idx := y*(l.steps.Z+1) + z
	if x == 0 {
		return l.val0[idx]
	}
	return l.val1[idx]
}

//-----------------------------------------------------------------------------

func marchingCubes(s sdf.SDF3, box sdf.Box3, step float64, output sdf.Triangle3Writer) {

	size := box.Size()
	base := box.Min
	steps := conv.V3ToV3i(size.DivScalar(step).Ceil())
	inc := size.Div(conv.V3iToV3(steps))

	// start the evaluation routines
	evalRoutines()

	// create the SDF layer cache
	l := newLayerYZ(base, inc, steps)
	// evaluate the SDF for x = 0
	l.Evaluate(s, 0)

	nx, ny, nz := steps.X, steps.Y, steps.Z
	dx, dy, dz := inc.X, inc.Y, inc.Z

	var p v3.Vec
	p.X = base.X
	for x := 0; x < nx; x++ {
		// read the x + 1 layer
		l.Evaluate(s, x+1)
		// process all cubes in the x and x + 1 layers
		p.Y = base.Y
		for y := 0; y < ny; y++ {
			p.Z = base.Z
			for z := 0; z < nz; z++ {
				x0, y0, z0 := p.X, p.Y, p.Z
				x1, y1, z1 := x0+dx, y0+dy, z0+dz
				corners := [8]v3.Vec{
					{x0, y0, z0},
					{x1, y0, z0},
					{x1, y1, z0},
					{x0, y1, z0},
					{x0, y0, z1},
					{x1, y0, z1},
					{x1, y1, z1},
					{x0, y1, z1}}
				values := [8]float64{
					l.Get(0, y, z),
					l.Get(1, y, z),
					l.Get(1, y+1, z),
					l.Get(0, y+1, z),
					l.Get(0, y, z+1),
					l.Get(1, y, z+1),
					l.Get(1, y+1, z+1),
					l.Get(0, y+1, z+1)}
				output.Write(mcToTriangles(corners, values, 0))
				p.Z += dz
			}
			p.Y += dy
		}
		p.X += dx
	}
}

//-----------------------------------------------------------------------------

func mcToTriangles(p [8]v3.Vec, v [8]float64, x float64) []*sdf.Triangle3 {
	// which of the 0..255 patterns do we have?
	index := 0
	for i := 0; i < 8; i++ {
		if v[i] < x {
			index |= 1 << uint(i)
		}
	}
	// do we have any triangles to create?
	if mcEdgeTable[index] == 0 {
		return nil
	}
	// work out the interpolated points on the edges
	var points [12]v3.Vec
	for i := 0; i < 12; i++ {
		bit := 1 << uint(i)
		if mcEdgeTable[index]&bit != 0 {
			a := mcPairTable[i][0]
			b := mcPairTable[i][1]
			points[i] = mcInterpolate(p[a], p[b], v[a], v[b], x)
		}
	}
	// create the triangles
	table := mcTriangleTable[index]
	count := len(table) / 3
	result := make([]*sdf.Triangle3, 0, count)
	for i := 0; i < count; i++ {
		t := sdf.Triangle3{}
		t[2] = points[table[i*3+0]]
		t[1] = points[table[i*3+1]]
		t[0] = points[table[i*3+2]]
		if !t.Degenerate(0) {
			result = append(result, &t)
		}
	}
	return result
}

//-----------------------------------------------------------------------------

func mcInterpolate(p1, p2 v3.Vec, v1, v2, x float64) v3.Vec {

	closeToV1 := math.Abs(x-v1) < epsilon
	closeToV2 := math.Abs(x-v2) < epsilon

	if closeToV1 && !closeToV2 {
		return p1
	}
	if closeToV2 && !closeToV1 {
		return p2
	}

	var t float64

	if closeToV1 && closeToV2 {
		// Pick the half way point
		t = 0.5
	} else {
		// linear interpolation
		t = (x - v1) / (v2 - v1)
	}

	return v3.Vec{
		p1.X + t*(p2.X-p1.X),
		p1.Y + t*(p2.Y-p1.Y),
		p1.Z + t*(p2.Z-p1.Z),
	}
}

//-----------------------------------------------------------------------------

// MarchingCubesUniform renders using marching cubes with uniform space sampling.
type MarchingCubesUniform struct {
	meshCells int // number of cells on the longest axis of bounding box. e.g 200
}

// NewMarchingCubesUniform returns a Render3 object.
func NewMarchingCubesUniform(meshCells int) *MarchingCubesUniform {
	return &MarchingCubesUniform{
		meshCells: meshCells,
	}
}

// Info returns a string describing the rendered volume.
func (r *MarchingCubesUniform) Info(s sdf.SDF3) string {
	bb0 := s.BoundingBox()
	bb0Size := bb0.Size()
	meshInc := bb0Size.MaxComponent() / float64(r.meshCells)
	bb1Size := bb0Size.DivScalar(meshInc)
	bb1Size = bb1Size.Ceil().AddScalar(1)
	cells := conv.V3ToV3i(bb1Size)
	return fmt.Sprintf("%dx%dx%d", cells.X, cells.Y, cells.Z)
}

// Render produces a 3d triangle mesh over the bounding volume of an sdf3.
func (r *MarchingCubesUniform) Render(s sdf.SDF3, output sdf.Triangle3Writer) {
	// work out the region we will sample
	bb0 := s.BoundingBox()
	bb0Size := bb0.Size()
	meshInc := bb0Size.MaxComponent() / float64(r.meshCells)
	bb1Size := bb0Size.DivScalar(meshInc)
	bb1Size = bb1Size.Ceil().AddScalar(1)
	bb1Size = bb1Size.MulScalar(meshInc)
	bb := sdf.NewBox3(bb0.Center(), bb1Size)
	marchingCubes(s, bb, meshInc, output)
	output.Close()
}

//-----------------------------------------------------------------------------

// These are the vertex pairs for the edges
var mcPairTable = [12][2]int{
	{0, 1}, // 0
	{1, 2}, // 1
	{2, 3}, // 2
	{3, 0}, // 3
	{4, 5}, // 4
	{5, 6}, // 5
	{6, 7}, // 6
	{7, 4}, // 7
	{0, 4}, // 8
	{1, 5}, // 9
	{2, 6}, // 10
	{3, 7}, // 11
}

// 8 vertices -> 256 possible inside/outside combinations
// A 1 bit in the value indicates an edge with a line end point.
// 12 edges -> 12 bit values, note the fwd/rev symmetry
var mcEdgeTable = [256]int{
	0x0000, 0x0109, 0x0203, 0x030a, 0x0406, 0x050f, 0x0605, 0x070c,
	0x080c, 0x0905, 0x0a0f, 0x0b06, 0x0c0a, 0x0d03, 0x0e09, 0x0f00,
	0x0190, 0x0099, 0x0393, 0x029a, 0x0596, 0x049f, 0x0795, 0x069c,
	0x099c, 0x0895, 0x0b9f, 0x0a96, 0x0d9a, 0x0c93, 0x0f99, 0x0e90,
	0x0230, 0x0339, 0x0033, 0x013a, 0x0636, 0x073f, 0x0435, 0x053c,
	0x0a3c, 0x0b35, 0x083f, 0x0936, 0x0e3a, 0x0f33, 0x0c39, 0x0d30,
	0x03a0, 0x02a9, 0x01a3, 0x00aa, 0x07a6, 0x06af, 0x05a5, 0x04ac,
	0x0bac, 0x0aa5, 0x09af, 0x08a6, 0x0faa, 0x0ea3, 0x0da9, 0x0ca0,
	0x0460, 0x0569, 0x0663, 0x076a, 0x0066, 0x016f, 0x0265, 0x036c,
	0x0c6c, 0x0d65, 0x0e6f, 0x0f66, 0x086a, 0x0963, 0x0a69, 0x0b60,
	0x05f0, 0x04f9, 0x07f3, 0x06fa, 0x01f6, 0x00ff, 0x03f5, 0x02fc,
	0x0dfc, 0x0cf5, 0x0fff, 0x0ef6, 0x09fa, 0x08f3, 0x0bf9, 0x0af0,
	0x0650, 0x0759, 0x0453, 0x055a, 0x0256, 0x035f, 0x0055, 0x015c,
	0x0e5c, 0x0f55, 0x0c5f, 0x0d56, 0x0a5a, 0x0b53, 0x0859, 0x0950,
	0x07c0, 0x06c9, 0x05c3, 0x04ca, 0x03c6, 0x02cf, 0x01c5, 0x00cc,
	0x0fcc, 0x0ec5, 0x0dcf, 0x0cc6, 0x0bca, 0x0ac3, 0x09c9, 0x08c0,
	0x08c0, 0x09c9, 0x0ac3, 0x0bca, 0x0cc6, 0x0dcf, 0x0ec5, 0x0fcc,
	0x00cc, 0x01c5, 0x02cf, 0x03c6, 0x04ca, 0x05c3, 0x06c9, 0x07c0,
	0x0950, 0x0859, 0x0b53, 0x0a5a, 0x0d56, 0x0c5f, 0x0f55, 0x0e5c,
	0x015c, 0x0055, 0x035f, 0x0256, 0x055a, 0x0453, 0x0759, 0x0650,
	0x0af0, 0x0bf9, 0x08f3, 0x09fa, 0x0ef6, 0x0fff, 0x0cf5, 0x0dfc,
	0x02fc, 0x03f5, 0x00ff, 0x01f6, 0x06fa, 0x07f3, 0x04f9, 0x05f0,
	0x0b60, 0x0a69, 0x0963, 0x086a, 0x0f66, 0x0e6f, 0x0d65, 0x0c6c,
	0x036c, 0x0265, 0x016f, 0x0066, 0x076a, 0x0663, 0x0569, 0x0460,
	0x0ca0, 0x0da9, 0x0ea3, 0x0faa, 0x08a6, 0x09af, 0x0aa5, 0x0bac,
	0x04ac, 0x05a5, 0x06af, 0x07a6, 0x00aa, 0x01a3, 0x02a9, 0x03a0,
	0x0d30, 0x0c39, 0x0f33, 0x0e3a, 0x0936, 0x083f, 0x0b35, 0x0a3c,
	0x053c, 0x0435, 0x073f, 0x0636, 0x013a, 0x0033, 0x0339, 0x0230,
	0x0e90, 0x0f99, 0x0c93, 0x0d9a, 0x0a96, 0x0b9f, 0x0895, 0x099c,
	0x069c, 0x0795, 0x049f, 0x0596, 0x029a, 0x0393, 0x0099, 0x0190,
	0x0f00, 0x0e09, 0x0d03, 0x0c0a, 0x0b06, 0x0a0f, 0x0905, 0x080c,
	0x070c, 0x0605, 0x050f, 0x0406, 0x030a, 0x0203, 0x0109, 0x0000,
}

// specify the edges used to create the triangle(s)
var mcTriangleTable = [256][]int{
	{},
	{0, 8, 3},
	{0, 1, 9},
	{1, 8, 3, 9, 8, 1},
	{1, 2, 10},
	{0, 8, 3, 1, 2, 10},
	{9, 2, 10, 0, 2, 9},
	{2, 8, 3, 2, 10, 8, 10, 9, 8},
	{3, 11, 2},
	{0, 11, 2, 8, 11, 0},
	{1, 9, 0, 2, 3, 11},
	{1, 11, 2, 1, 9, 11, 9, 8, 11},
	{3, 10, 1, 11, 10, 3},
	{0, 10, 1, 0, 8, 10, 8, 11, 10},
	{3, 9, 0, 3, 11, 9, 11, 10, 9},
	{9, 8, 10, 10, 8, 11},
	{4, 7, 8},
	{4, 3, 0, 7, 3, 4},
	{0, 1, 9, 8, 4, 7},
	{4, 1, 9, 4, 7, 1, 7, 3, 1},
	{1, 2, 10, 8, 4, 7},
	{3, 4, 7, 3, 0, 4, 1, 2, 10},
	{9, 2, 10, 9, 0, 2, 8, 4, 7},
	{2, 10, 9, 2, 9, 7, 2, 7, 3, 7, 9, 4},
	{8, 4, 7, 3, 11, 2},
	{11, 4, 7, 11, 2, 4, 2, 0, 4},
	{9, 0, 1, 8, 4, 7, 2, 3, 11},
	{4, 7, 11, 9, 4, 11, 9, 11, 2, 9, 2, 1},
	{3, 10, 1, 3, 11, 10, 7, 8, 4},
	{1, 11, 10, 1, 4, 11, 1, 0, 4, 7, 11, 4},
	{4, 7, 8, 9, 0, 11, 9, 11, 10, 11, 0, 3},
	{4, 7, 11, 4, 11, 9, 9, 11, 10},
	{9, 5, 4},
	{9, 5, 4, 0, 8, 3},
	{0, 5, 4, 1, 5, 0},
	{8, 5, 4, 8, 3, 5, 3, 1, 5},
	{1, 2, 10, 9, 5, 4},
	{3, 0, 8, 1, 2, 10, 4, 9, 5},
	{5, 2, 10, 5, 4, 2, 4, 0, 2},
	{2, 10, 5, 3, 2, 5, 3, 5, 4, 3, 4, 8},
	{9, 5, 4, 2, 3, 11},
	{0, 11, 2, 0, 8, 11, 4, 9, 5},
	{0, 5, 4, 0, 1, 5, 2, 3, 11},
	{2, 1, 5, 2, 5, 8, 2, 8, 11, 4, 8, 5},
	{10, 3, 11, 10, 1, 3, 9, 5, 4},
	{4, 9, 5, 0, 8, 1, 8, 10, 1, 8, 11, 10},
	{5, 4, 0, 5, 0, 11, 5, 11, 10, 11, 0, 3},
	{5, 4, 8, 5, 8, 10, 10, 8, 11},
	{9, 7, 8, 5, 7, 9},
	{9, 3, 0, 9, 5, 3, 5, 7, 3},
	{0, 7, 8, 0, 1, 7, 1, 5, 7},
	{1, 5, 3, 3, 5, 7},
	{9, 7, 8, 9, 5, 7, 10, 1, 2},
	{10, 1, 2, 9, 5, 0, 5, 3, 0, 5, 7, 3},
	{8, 0, 2, 8, 2, 5, 8, 5, 7, 10, 5, 2},
	{2, 10, 5, 2, 5, 3, 3, 5, 7},
	{7, 9, 5, 7, 8, 9, 3, 11, 2},
	{9, 5, 7, 9, 7, 2, 9, 2, 0, 2, 7, 11},
	{2, 3, 11, 0, 1, 8, 1, 7, 8, 1, 5, 7},
	{11, 2, 1, 11, 1, 7, 7, 1, 5},
	{9, 5, 8, 8, 5, 7, 10, 1, 3, 10, 3, 11},
	{5, 7, 0, 5, 0, 9, 7, 11, 0, 1, 0, 10, 11, 10, 0},
	{11, 10, 0, 11, 0, 3, 10, 5, 0, 8, 0, 7, 5, 7, 0},
	{11, 10, 5, 7, 11, 5},
	{10, 6, 5},
	{0, 8, 3, 5, 10, 6},
	{9, 0, 1, 5, 10, 6},
	{1, 8, 3, 1, 9, 8, 5, 10, 6},
	{1, 6, 5, 2, 6, 1},
	{1, 6, 5, 1, 2, 6, 3, 0, 8},
	{9, 6, 5, 9, 0, 6, 0, 2, 6},
	{5, 9, 8, 5, 8, 2, 5, 2, 6, 3, 2, 8},
	{2, 3, 11, 10, 6, 5},
	{11, 0, 8, 11, 2, 0, 10, 6, 5},
	{0, 1, 9, 2, 3, 11, 5, 10, 6},
	{5, 10, 6, 1, 9, 2, 9, 11, 2, 9, 8, 11},
	{6, 3, 11, 6, 5, 3, 5, 1, 3},
	{0, 8, 11, 0, 11, 5, 0, 5, 1, 5, 11, 6},
	{3, 11, 6, 0, 3, 6, 0, 6, 5, 0, 5, 9},
	{6, 5, 9, 6, 9, 11, 11, 9, 8},
	{5, 10, 6, 4, 7, 8},
	{4, 3, 0, 4, 7, 3, 6, 5, 10},
	{1, 9, 0, 5, 10, 6, 8, 4, 7},
	{10, 6, 5, 1, 9, 7, 1, 7, 3, 7, 9, 4},
	{6, 1, 2, 6, 5, 1, 4, 7, 8},
	{1, 2, 5, 5, 2, 6, 3, 0, 4, 3, 4, 7},
	{8, 4, 7, 9, 0, 5, 0, 6, 5, 0, 2, 6},
	{7, 3, 9, 7, 9, 4, 3, 2, 9, 5, 9, 6, 2, 6, 9},
	{3, 11, 2, 7, 8, 4, 10, 6, 5},
	{5, 10, 6, 4, 7, 2, 4, 2, 0, 2, 7, 11},
	{0, 1, 9, 4, 7, 8, 2, 3, 11, 5, 10, 6},
	{9, 2, 1, 9, 11, 2, 9, 4, 11, 7, 11, 4, 5, 10, 6},
	{8, 4, 7, 3, 11, 5, 3, 5, 1, 5, 11, 6},
	{5, 1, 11, 5, 11, 6, 1, 0, 11, 7, 11, 4, 0, 4, 11},
	{0, 5, 9, 0, 6, 5, 0, 3, 6, 11, 6, 3, 8, 4, 7},
	{6, 5, 9, 6, 9, 11, 4, 7, 9, 7, 11, 9},
	{10, 4, 9, 6, 4, 10},
	{4, 10, 6, 4, 9, 10, 0, 8, 3},
	{10, 0, 1, 10, 6, 0, 6, 4, 0},
	{8, 3, 1, 8, 1, 6, 8, 6, 4, 6, 1, 10},
	{1, 4, 9, 1, 2, 4, 2, 6, 4},
	{3, 0, 8, 1, 2, 9, 2, 4, 9, 2, 6, 4},
	{0, 2, 4, 4, 2, 6},
	{8, 3, 2, 8, 2, 4, 4, 2, 6},
	{10, 4, 9, 10, 6, 4, 11, 2, 3},
	{0, 8, 2, 2, 8, 11, 4, 9, 10, 4, 10, 6},
	{3, 11, 2, 0, 1, 6, 0, 6, 4, 6, 1, 10},
	{6, 4, 1, 6, 1, 10, 4, 8, 1, 2, 1, 11, 8, 11, 1},
	{9, 6, 4, 9, 3, 6, 9, 1, 3, 11, 6, 3},
	{8, 11, 1, 8, 1, 0, 11, 6, 1, 9, 1, 4, 6, 4, 1},
	{3, 11, 6, 3, 6, 0, 0, 6, 4},
	{6, 4, 8, 11, 6, 8},
	{7, 10, 6, 7, 8, 10, 8, 9, 10},
	{0, 7, 3, 0, 10, 7, 0, 9, 10, 6, 7, 10},
	{10, 6, 7, 1, 10, 7, 1, 7, 8, 1, 8, 0},
	{10, 6, 7, 10, 7, 1, 1, 7, 3},
	{1, 2, 6, 1, 6, 8, 1, 8, 9, 8, 6, 7},
	{2, 6, 9, 2, 9, 1, 6, 7, 9, 0, 9, 3, 7, 3, 9},
	{7, 8, 0, 7, 0, 6, 6, 0, 2},
	{7, 3, 2, 6, 7, 2},
	{2, 3, 11, 10, 6, 8, 10, 8, 9, 8, 6, 7},
	{2, 0, 7, 2, 7, 11, 0, 9, 7, 6, 7, 10, 9, 10, 7},
	{1, 8, 0, 1, 7, 8, 1, 10, 7, 6, 7, 10, 2, 3, 11},
	{11, 2, 1, 11, 1, 7, 10, 6, 1, 6, 7, 1},
	{8, 9, 6, 8, 6, 7, 9, 1, 6, 11, 6, 3, 1, 3, 6},
	{0, 9, 1, 11, 6, 7},
	{7, 8, 0, 7, 0, 6, 3, 11, 0, 11, 6, 0},
	{7, 11, 6},
	{7, 6, 11},
	{3, 0, 8, 11, 7, 6},
	{0, 1, 9, 11, 7, 6},
	{8, 1, 9, 8, 3, 1, 11, 7, 6},
	{10, 1, 2, 6, 11, 7},
	{1, 2, 10, 3, 0, 8, 6, 11, 7},
	{2, 9, 0, 2, 10, 9, 6, 11, 7},
	{6, 11, 7, 2, 10, 3, 10, 8, 3, 10, 9, 8},
	{7, 2, 3, 6, 2, 7},
	{7, 0, 8, 7, 6, 0, 6, 2, 0},
	{2, 7, 6, 2, 3, 7, 0, 1, 9},
	{1, 6, 2, 1, 8, 6, 1, 9, 8, 8, 7, 6},
	{10, 7, 6, 10, 1, 7, 1, 3, 7},
	{10, 7, 6, 1, 7, 10, 1, 8, 7, 1, 0, 8},
	{0, 3, 7, 0, 7, 10, 0, 10, 9, 6, 10, 7},
	{7, 6, 10, 7, 10, 8, 8, 10, 9},
	{6, 8, 4, 11, 8, 6},
	{3, 6, 11, 3, 0, 6, 0, 4, 6},
	{8, 6, 11, 8, 4, 6, 9, 0, 1},
	{9, 4, 6, 9, 6, 3, 9, 3, 1, 11, 3, 6},
	{6, 8, 4, 6, 11, 8, 2, 10, 1},
	{1, 2, 10, 3, 0, 11, 0, 6, 11, 0, 4, 6},
	{4, 11, 8, 4, 6, 11, 0, 2, 9, 2, 10, 9},
	{10, 9, 3, 10, 3, 2, 9, 4, 3, 11, 3, 6, 4, 6, 3},
	{8, 2, 3, 8, 4, 2, 4, 6, 2},
	{0, 4, 2, 4, 6, 2},
	{1, 9, 0, 2, 3, 4, 2, 4, 6, 4, 3, 8},
	{1, 9, 4, 1, 4, 2, 2, 4, 6},
	{8, 1, 3, 8, 6, 1, 8, 4, 6, 6, 10, 1},
	{10, 1, 0, 10, 0, 6, 6, 0, 4},
	{4, 6, 3, 4, 3, 8, 6, 10, 3, 0, 3, 9, 10, 9, 3},
	{10, 9, 4, 6, 10, 4},
	{4, 9, 5, 7, 6, 11},
	{0, 8, 3, 4, 9, 5, 11, 7, 6},
	{5, 0, 1, 5, 4, 0, 7, 6, 11},
	{11, 7, 6, 8, 3, 4, 3, 5, 4, 3, 1, 5},
	{9, 5, 4, 10, 1, 2, 7, 6, 11},
	{6, 11, 7, 1, 2, 10, 0, 8, 3, 4, 9, 5},
	{7, 6, 11, 5, 4, 10, 4, 2, 10, 4, 0, 2},
	{3, 4, 8, 3, 5, 4, 3, 2, 5, 10, 5, 2, 11, 7, 6},
	{7, 2, 3, 7, 6, 2, 5, 4, 9},
	{9, 5, 4, 0, 8, 6, 0, 6, 2, 6, 8, 7},
	{3, 6, 2, 3, 7, 6, 1, 5, 0, 5, 4, 0},
	{6, 2, 8, 6, 8, 7, 2, 1, 8, 4, 8, 5, 1, 5, 8},
	{9, 5, 4, 10, 1, 6, 1, 7, 6, 1, 3, 7},
	{1, 6, 10, 1, 7, 6, 1, 0, 7, 8, 7, 0, 9, 5, 4},
	{4, 0, 10, 4, 10, 5, 0, 3, 10, 6, 10, 7, 3, 7, 10},
	{7, 6, 10, 7, 10, 8, 5, 4, 10, 4, 8, 10},
	{6, 9, 5, 6, 11, 9, 11, 8, 9},
	{3, 6, 11, 0, 6, 3, 0, 5, 6, 0, 9, 5},
	{0, 11, 8, 0, 5, 11, 0, 1, 5, 5, 6, 11},
	{6, 11, 3, 6, 3, 5, 5, 3, 1},
	{1, 2, 10, 9, 5, 11, 9, 11, 8, 11, 5, 6},
	{0, 11, 3, 0, 6, 11, 0, 9, 6, 5, 6, 9, 1, 2, 10},
	{11, 8, 5, 11, 5, 6, 8, 0, 5, 10, 5, 2, 0, 2, 5},
	{6, 11, 3, 6, 3, 5, 2, 10, 3, 10, 5, 3},
	{5, 8, 9, 5, 2, 8, 5, 6, 2, 3, 8, 2},
	{9, 5, 6, 9, 6, 0, 0, 6, 2},
	{1, 5, 8, 1, 8, 0, 5, 6, 8, 3, 8, 2, 6, 2, 8},
	{1, 5, 6, 2, 1, 6},
	{1, 3, 6, 1, 6, 10, 3, 8, 6, 5, 6, 9, 8, 9, 6},
	{10, 1, 0, 10, 0, 6, 9, 5, 0, 5, 6, 0},
	{0, 3, 8, 5, 6, 10},
	{10, 5, 6},
	{11, 5, 10, 7, 5, 11},
	{11, 5, 10, 11, 7, 5, 8, 3, 0},
	{5, 11, 7, 5, 10, 11, 1, 9, 0},
	{10, 7, 5, 10, 11, 7, 9, 8, 1, 8, 3, 1},
	{11, 1, 2, 11, 7, 1, 7, 5, 1},
	{0, 8, 3, 1, 2, 7, 1, 7, 5, 7, 2, 11},
	{9, 7, 5, 9, 2, 7, 9, 0, 2, 2, 11, 7},
	{7, 5, 2, 7, 2, 11, 5, 9, 2, 3, 2, 8, 9, 8, 2},
	{2, 5, 10, 2, 3, 5, 3, 7, 5},
	{8, 2, 0, 8, 5, 2, 8, 7, 5, 10, 2, 5},
	{9, 0, 1, 5, 10, 3, 5, 3, 7, 3, 10, 2},
	{9, 8, 2, 9, 2, 1, 8, 7, 2, 10, 2, 5, 7, 5, 2},
	{1, 3, 5, 3, 7, 5},
	{0, 8, 7, 0, 7, 1, 1, 7, 5},
	{9, 0, 3, 9, 3, 5, 5, 3, 7},
	{9, 8, 7, 5, 9, 7},
	{5, 8, 4, 5, 10, 8, 10, 11, 8},
	{5, 0, 4, 5, 11, 0, 5, 10, 11, 11, 3, 0},
	{0, 1, 9, 8, 4, 10, 8, 10, 11, 10, 4, 5},
	{10, 11, 4, 10, 4, 5, 11, 3, 4, 9, 4, 1, 3, 1, 4},
	{2, 5, 1, 2, 8, 5, 2, 11, 8, 4, 5, 8},
	{0, 4, 11, 0, 11, 3, 4, 5, 11, 2, 11, 1, 5, 1, 11},
	{0, 2, 5, 0, 5, 9, 2, 11, 5, 4, 5, 8, 11, 8, 5},
	{9, 4, 5, 2, 11, 3},
	{2, 5, 10, 3, 5, 2, 3, 4, 5, 3, 8, 4},
	{5, 10, 2, 5, 2, 4, 4, 2, 0},
	{3, 10, 2, 3, 5, 10, 3, 8, 5, 4, 5, 8, 0, 1, 9},
	{5, 10, 2, 5, 2, 4, 1, 9, 2, 9, 4, 2},
	{8, 4, 5, 8, 5, 3, 3, 5, 1},
	{0, 4, 5, 1, 0, 5},
	{8, 4, 5, 8, 5, 3, 9, 0, 5, 0, 3, 5},
	{9, 4, 5},
	{4, 11, 7, 4, 9, 11, 9, 10, 11},
	{0, 8, 3, 4, 9, 7, 9, 11, 7, 9, 10, 11},
	{1, 10, 11, 1, 11, 4, 1, 4, 0, 7, 4, 11},
	{3, 1, 4, 3, 4, 8, 1, 10, 4, 7, 4, 11, 10, 11, 4},
	{4, 11, 7, 9, 11, 4, 9, 2, 11, 9, 1, 2},
	{9, 7, 4, 9, 11, 7, 9, 1, 11, 2, 11, 1, 0, 8, 3},
	{11, 7, 4, 11, 4, 2, 2, 4, 0},
	{11, 7, 4, 11, 4, 2, 8, 3, 4, 3, 2, 4},
	{2, 9, 10, 2, 7, 9, 2, 3, 7, 7, 4, 9},
	{9, 10, 7, 9, 7, 4, 10, 2, 7, 8, 7, 0, 2, 0, 7},
	{3, 7, 10, 3, 10, 2, 7, 4, 10, 1, 10, 0, 4, 0, 10},
	{1, 10, 2, 8, 7, 4},
	{4, 9, 1, 4, 1, 7, 7, 1, 3},
	{4, 9, 1, 4, 1, 7, 0, 8, 1, 8, 7, 1},
	{4, 0, 3, 7, 4, 3},
	{4, 8, 7},
	{9, 10, 8, 10, 11, 8},
	{3, 0, 9, 3, 9, 11, 11, 9, 10},
	{0, 1, 10, 0, 10, 8, 8, 10, 11},
	{3, 1, 10, 11, 3, 10},
	{1, 2, 11, 1, 11, 9, 9, 11, 8},
	{3, 0, 9, 3, 9, 11, 1, 2, 9, 2, 11, 9},
	{0, 2, 11, 8, 0, 11},
	{3, 2, 11},
	{2, 3, 8, 2, 8, 10, 10, 8, 9},
	{9, 10, 2, 0, 9, 2},
	{2, 3, 8, 2, 8, 10, 0, 1, 8, 1, 10, 8},
	{1, 10, 2},
	{1, 3, 8, 9, 1, 8},
	{0, 9, 1},
	{0, 3, 8},
	{},
}

//-----------------------------------------------------------------------------
