//-----------------------------------------------------------------------------
/*

Marching Squares

Convert an SDF2 boundary to a set of line segments.

*/
//-----------------------------------------------------------------------------

package render

import (
	"fmt"
	"math"

	"github.com/deadsy/sdfx/sdf"
	"github.com/deadsy/sdfx/vec/conv"
	v2 "github.com/deadsy/sdfx/vec/v2"
	"github.com/deadsy/sdfx/vec/v2i"
)

//-----------------------------------------------------------------------------

// lineCache is a cache of SDF2 evaluations samples over a 2d line.
type lineCache struct {
	base  v2.Vec    // base coordinate of line
	inc   v2.Vec    // dx, dy for each step
	steps v2i.Vec   // number of x,y steps
	val0  []float64 // SDF values for x line
	val1  []float64 // SDF values for x + dx line
}

// newLineCache returns a line cache.
func newLineCache(base, inc v2.Vec, steps v2i.Vec) *lineCache {
	return &lineCache{base, inc, steps, nil, nil}
}

// evaluate the SDF2 over a given x line.
func (l *lineCache) evaluate(s sdf.SDF2, x int) {

	// Swap the layers
	l.val0, l.val1 = l.val1, l.val0

	ny := l.steps.Y
	dx, dy := l.inc.X, l.inc.Y

	// allocate storage
	if l.val1 == nil {
		l.val1 = make([]float64, ny+1)
	}

	// setup the loop variables
	idx := 0
	var p v2.Vec
	p.X = l.base.X + float64(x)*dx

	// evaluate the line
	p.Y = l.base.Y
	for y := 0; y < ny+1; y++ {
		l.val1[idx] = s.Evaluate(p)
		idx++
		p.Y += dy
	}
}

// get a value from a line cache.
func (l *lineCache) get(x, y int) float64 {
	if x == 0 {
		return l.val0[y]
	}
	return l.val1[y]
}

//-----------------------------------------------------------------------------

func marchingSquares(s sdf.SDF2, resolution float64, output sdf.Line2Writer) {
	// Scale the bounding box about the center to make sure the boundaries
	// aren't on the object surface.
	bb := s.BoundingBox()
	bb = bb.ScaleAboutCenter(1.01)

	size := bb.Size()
	base := bb.Min
	steps := conv.V2ToV2i(size.MulScalar(1 / resolution).Ceil())
	inc := size.Div(conv.V2iToV2(steps))

	// create the line cache
	l := newLineCache(base, inc, steps)
	// evaluate the SDF for x = 0
	l.evaluate(s, 0)

	nx, ny := steps.X, steps.Y
	dx, dy := inc.X, inc.Y

	var p v2.Vec
	p.X = base.X
	for x := 0; x < nx; x++ {
		// read the x + 1 layer
		l.evaluate(s, x+1)
		// process all squares in the x and x + 1 layers
		p.Y = base.Y
		for y := 0; y < ny; y++ {
			x0, y0 := p.X, p.Y
			x1, y1 := x0+dx, y0+dy
			corners := [4]v2.Vec{
				{x0, y0},
				{x1, y0},
				{x1, y1},
				{x0, y1},
			}
			values := [4]float64{
				l.get(0, y),
				l.get(1, y),
				l.get(1, y+1),
				l.get(0, y+1),
			}
			output.Write(msToLines(corners, values, 0))
			p.Y += dy
		}
		p.X += dx
	}
	output.Close()
}

//-----------------------------------------------------------------------------

// MarchingSquaresUniform renders using marching squares with uniform area sampling.
type MarchingSquaresUniform struct {
	meshCells int // number of cells on the longest axis of bounding box. e.g 200
}

// NewMarchingSquaresUniform returns a Render2 object.
func NewMarchingSquaresUniform(meshCells int) *MarchingSquaresUniform {
	return &MarchingSquaresUniform{
		meshCells: meshCells,
	}
}

// Info returns a string describing the rendered area.
func (r *MarchingSquaresUniform) Info(s sdf.SDF2) string {
	bbSize := s.BoundingBox().Size()
	resolution := bbSize.MaxComponent() / float64(r.meshCells)
	cells := conv.V2ToV2i(bbSize.MulScalar(1 / resolution))
	return fmt.Sprintf("%dx%d, resolution %.2f", cells.X, cells.Y, resolution)
}

// Render produces a 2d line mesh over the bounding area of an sdf2.
func (r *MarchingSquaresUniform) Render(s sdf.SDF2, output sdf.Line2Writer) {
	bbSize := s.BoundingBox().Size()
	resolution := bbSize.MaxComponent() / float64(r.meshCells)
	marchingSquares(s, resolution, output)
}

//-----------------------------------------------------------------------------

// generate the line segments for a square
func msToLines(p [4]v2.Vec, v [4]float64, x float64) []*sdf.Line2 {
	// which of the 0..15 patterns do we have?
	index := 0
	for i := 0; i < 4; i++ {
		if v[i] < x {
			index |= 1 << uint(i)
		}
	}
	// do we have any lines to create?
	if msEdgeTable[index] == 0 {
		return nil
	}
	// work out the interpolated points on the edges
	var points [4]v2.Vec
	for i := 0; i < 4; i++ {
		bit := 1 << uint(i)
		if msEdgeTable[index]&bit != 0 {
			a := msPairTable[i][0]
			b := msPairTable[i][1]
			points[i] = msInterpolate(p[a], p[b], v[a], v[b], x)
		}
	}
	// create the line segments
	table := msLineTable[index]
	count := len(table) / 2
	result := make([]*sdf.Line2, 0, count)
	for i := 0; i < count; i++ {
		l := sdf.Line2{}
		l[1] = points[table[i*2+0]]
		l[0] = points[table[i*2+1]]
		if !l.Degenerate(0) {
			result = append(result, &l)
		}
	}
	return result
}

//-----------------------------------------------------------------------------

func msInterpolate(p1, p2 v2.Vec, k1, k2, x float64) v2.Vec {

	closeToV1 := math.Abs(x-k1) < epsilon
	closeToV2 := math.Abs(x-k2) < epsilon

	if closeToV1 && !closeToV2 {
		return p1
	}
	if closeToV2 && !closeToV1 {
		return p2
	}

	var t float64

	if closeToV1 && closeToV2 {
		// Pick the half way point
		t = 0.5
	} else {
		// linear interpolation
		t = (x - k1) / (k2 - k1)
	}
	return v2.Vec{p1.X + t*(p2.X-p1.X), p1.Y + t*(p2.Y-p1.Y)}
}

//-----------------------------------------------------------------------------

// These are the vertex pairs for the edges
var msPairTable = [4][2]int{
	{0, 1}, // 0
	{1, 2}, // 1
	{2, 3}, // 2
	{3, 0}, // 3
}

// 4 vertices -> 16 possible inside/outside combinations
// A 1 bit in the value indicates an edge with a line end point.
// 4 edges -> 4 bit values, note the fwd/rev symmetry
var msEdgeTable = [16]int{
	0x0, 0x9, 0x3, 0xa,
	0x6, 0xf, 0x5, 0xc,
	0xc, 0x5, 0xf, 0x6,
	0xa, 0x3, 0x9, 0x0,
}

// specify the edges used to create the line(s)
var msLineTable = [16][]int{
	{},           // 0
	{0, 3},       // 1
	{0, 1},       // 2
	{1, 3},       // 3
	{1, 2},       // 4
	{0, 1, 2, 3}, // 5
	{0, 2},       // 6
	{2, 3},       // 7
	{2, 3},       // 8
	{0, 2},       // 9
	{0, 3, 1, 2}, // 10
	{1, 2},       // 11
	{1, 3},       // 12
	{0, 1},       // 13
	{0, 3},       // 14
	{},           // 15
}

//-----------------------------------------------------------------------------
