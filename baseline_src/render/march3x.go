//-----------------------------------------------------------------------------
/*

Marching Cubes Octree

Convert an SDF3 to a triangle mesh.
Uses octree space subdivision.

*/
//-----------------------------------------------------------------------------

package render

import (
	"fmt"
	"math"
	"sync"

	"github.com/deadsy/sdfx/sdf"
	"github.com/deadsy/sdfx/vec/conv"
	v3 "github.com/deadsy/sdfx/vec/v3"
	"github.com/deadsy/sdfx/vec/v3i"
)

//-----------------------------------------------------------------------------

type cube struct {
	v v3i.Vec // origin of cube as integers
	n uint    // level of cube, size = 1 << n
}

//-----------------------------------------------------------------------------
// Evaluate the SDF3 via a distance cache to avoid repeated evaluations.
// Experimentally about 2/3 of lookups get a hit, and the overall speedup
// is about 2x a non-cached evaluation.

type dcache3 struct {
	origin     v3.Vec              // origin of the overall bounding cube
	resolution float64             // size of smallest octree cube
	hdiag      []float64           // lookup table of cube half diagonals
	s          sdf.SDF3            // the SDF3 to be rendered
	cache      map[v3i.Vec]float64 // cache of distances
	lock       sync.RWMutex        // lock the the cache during reads/writes
}

func newDcache3(s sdf.SDF3, origin v3.Vec, resolution float64, n uint) *dcache3 {
	// TODO heuristic for initial cache size. Maybe k * (1 << n)^3
	// Avoiding any resizing of the map seems to be worth 2-5% of speedup.
	dc := dcache3{
		origin:     origin,
		resolution: resolution,
		hdiag:      make([]float64, n),
		s:          s,
		cache:      make(map[v3i.Vec]float64),
	}
	// build a lut for cube half diagonal lengths
	for i := range dc.hdiag {
		si := 1 << uint(i)
		s := float64(si) * dc.resolution
		dc.hdiag[i] = 0.5 * math.Sqrt(3.0*s*s)
	}
	return &dc
}

// read from the cache
func (dc *dcache3) read(vi v3i.Vec) (float64, bool) {
	dc.lock.RLock()
	dist, found := dc.cache[vi]
	dc.lock.RUnlock()
	return dist, found
}

// write to the cache
func (dc *dcache3) write(vi v3i.Vec, dist float64) {
	dc.lock.Lock()
	dc.cache[vi] = dist
	dc.lock.Unlock()
}

func (dc *dcache3) evaluate(vi v3i.Vec) (v3.Vec, float64) {
	v := dc.origin.Add(conv.V3iToV3(vi).MulScalar(dc.resolution))
	// do we have it in the cache?
	dist, found := dc.read(vi)
	if found {
		return v, dist
	}
	// evaluate the SDF3
	dist = dc.s.Evaluate(v)
	// write it to the cache
	dc.write(vi, dist)
	return v, dist
}

// isEmpty returns true if the cube contains no SDF surface
func (dc *dcache3) isEmpty(c *cube) bool {
	// evaluate the SDF3 at the center of the cube
	s := 1 << (c.n - 1) // half side
	_, d := dc.evaluate(c.v.AddScalar(s))
	// compare to the center/corner distance
	return math.Abs(d) >= dc.hdiag[c.n]
}

// Process a cube. Generate triangles, or more cubes.
func (dc *dcache3) processCube(c *cube, output sdf.Triangle3Writer) {
	if !dc.isEmpty(c) {
		if c.n == 1 {
			// this cube is at the required resolution
			c0, d0 := dc.evaluate(c.v.Add(v3i.Vec{0, 0, 0}))
			c1, d1 := dc.evaluate(c.v.Add(v3i.Vec{2, 0, 0}))
			c2, d2 := dc.evaluate(c.v.Add(v3i.Vec{2, 2, 0}))
			c3, d3 := dc.evaluate(c.v.Add(v3i.Vec{0, 2, 0}))
			c4, d4 := dc.evaluate(c.v.Add(v3i.Vec{0, 0, 2}))
			c5, d5 := dc.evaluate(c.v.Add(v3i.Vec{2, 0, 2}))
			c6, d6 := dc.evaluate(c.v.Add(v3i.Vec{2, 2, 2}))
			c7, d7 := dc.evaluate(c.v.Add(v3i.Vec{0, 2, 2}))
			corners := [8]v3.Vec{c0, c1, c2, c3, c4, c5, c6, c7}
			values := [8]float64{d0, d1, d2, d3, d4, d5, d6, d7}
			// output the triangle(s) for this cube
			output.Write(mcToTriangles(corners, values, 0))
		} else {
			// process the sub cubes
			n := c.n - 1
			s := 1 << n
			// TODO - turn these into throttled go-routines
			dc.processCube(&cube{c.v.Add(v3i.Vec{0, 0, 0}), n}, output)
			dc.processCube(&cube{c.v.Add(v3i.Vec{s, 0, 0}), n}, output)
			dc.processCube(&cube{c.v.Add(v3i.Vec{s, s, 0}), n}, output)
			dc.processCube(&cube{c.v.Add(v3i.Vec{0, s, 0}), n}, output)
			dc.processCube(&cube{c.v.Add(v3i.Vec{0, 0, s}), n}, output)
			dc.processCube(&cube{c.v.Add(v3i.Vec{s, 0, s}), n}, output)
			dc.processCube(&cube{c.v.Add(v3i.Vec{s, s, s}), n}, output)
			dc.processCube(&cube{c.v.Add(v3i.Vec{0, s, s}), n}, output)
		}
	}
}

//-----------------------------------------------------------------------------

// marchingCubesOctree generates a triangle mesh for an SDF3 using octree subdivision.
func marchingCubesOctree(s sdf.SDF3, resolution float64, output sdf.Triangle3Writer) {
	// Scale the bounding box about the center to make sure the boundaries
	// aren't on the object surface.
	bb := s.BoundingBox()
	bb = bb.ScaleAboutCenter(1.01)
	longAxis := bb.Size().MaxComponent()
	// We want to test the smallest cube (side == resolution) for emptiness
	// so the level = 0 cube is at half resolution.
	resolution = 0.5 * resolution
	// how many cube levels for the octree?
	levels := uint(math.Ceil(math.Log2(longAxis/resolution))) + 1
	// create the distance cache
	dc := newDcache3(s, bb.Min, resolution, levels)
	// process the octree, start at the top level
	dc.processCube(&cube{v3i.Vec{0, 0, 0}, levels - 1}, output)
	output.Close()
}

//-----------------------------------------------------------------------------

// MarchingCubesOctree renders using marching cubes with octree space sampling.
type MarchingCubesOctree struct {
	meshCells int // number of cells on the longest axis of bounding box. e.g 200
}

// NewMarchingCubesOctree returns a Render3 object.
func NewMarchingCubesOctree(meshCells int) *MarchingCubesOctree {
	return &MarchingCubesOctree{
		meshCells: meshCells,
	}
}

// Info returns a string describing the rendered volume.
func (r *MarchingCubesOctree) Info(s sdf.SDF3) string {
	bbSize := s.BoundingBox().Size()
	resolution := bbSize.MaxComponent() / float64(r.meshCells)
	cells := conv.V3ToV3i(bbSize.MulScalar(1 / resolution))
	return fmt.Sprintf("%dx%dx%d, resolution %.2f", cells.X, cells.Y, cells.Z, resolution)
}

// Render produces a 3d triangle mesh over the bounding volume of an sdf3.
func (r *MarchingCubesOctree) Render(s sdf.SDF3, output sdf.Triangle3Writer) {
	// work out the sampling resolution to use
	bbSize := s.BoundingBox().Size()
	resolution := bbSize.MaxComponent() / float64(r.meshCells)
	marchingCubesOctree(s, resolution, output)
}

//-----------------------------------------------------------------------------
