//-----------------------------------------------------------------------------
/*

Output a 2D line set to an SVG file.

*/
//-----------------------------------------------------------------------------

package render

import (
	"fmt"
	"os"
	"sync"

	svg "github.com/ajstarks/svgo/float"
	"github.com/deadsy/sdfx/sdf"
	v2 "github.com/deadsy/sdfx/vec/v2"
)

//-----------------------------------------------------------------------------

// SVG represents an SVG renderer.
type SVG struct {
	filename  string
	lineStyle string
	p0s, p1s  []v2.Vec
	min, max  v2.Vec
}

// NewSVG returns an SVG renderer.
func NewSVG(filename, lineStyle string) *SVG {
	return &SVG{
		filename:  filename,
		lineStyle: lineStyle,
	}
}

// Line outputs a line to the SVG file.
func (s *SVG) Line(p0, p1 v2.Vec) {
	if len(s.p0s) == 0 {
		s.min = p0.Min(p1)
		s.max = p0.Max(p1)
	} else {
		s.min = s.min.Min(p0)
		s.min = s.min.Min(p1)
		s.max = s.max.Max(p0)
		s.max = s.max.Max(p1)
	}
	s.p0s = append(s.p0s, p0)
	s.p1s = append(s.p1s, p1)
}

// Save closes the SVG file.
func (s *SVG) Save() error {
	f, err := os.Create(s.filename)
	if err != nil {
		return err
	}

	width := s.max.X - s.min.X
	height := s.max.Y - s.min.Y
	canvas := svg.New(f)
	canvas.Start(width, height)
	for i, p0 := range s.p0s {
		p1 := s.p1s[i]
		canvas.Line(p0.X-s.min.X, s.max.Y-p0.Y, p1.X-s.min.X, s.max.Y-p1.Y, s.lineStyle)
	}
	canvas.End()
	return f.Close()
}

//-----------------------------------------------------------------------------

// SaveSVG writes line segments to an SVG file.
func SaveSVG(path, lineStyle string, mesh []*sdf.Line2) error {
	s := NewSVG(path, lineStyle)
	for _, v := range mesh {
		s.Line(v[0], v[1])
	}
	if err := s.Save(); err != nil {
		return err
	}
	return nil
}

//-----------------------------------------------------------------------------

// writeSVG writes a stream of line segments to an SVG file.
func writeSVG(wg *sync.WaitGroup, path, lineStyle string) (chan<- []*sdf.Line2, error) {

	s := NewSVG(path, lineStyle)

	// External code writes line segments to this channel.
	// This goroutine reads the channel and writes line segments to the file.
	c := make(chan []*sdf.Line2)

	wg.Add(1)
	go func() {
		defer wg.Done()
		for ls := range c {
			for _, l := range ls {
				s.Line(l[0], l[1])
			}
		}

		if err := s.Save(); err != nil {
			fmt.Printf("%s\n", err)
			return
		}
	}()

	return c, nil
}

//-----------------------------------------------------------------------------
