//-----------------------------------------------------------------------------

//-----------------------------------------------------------------------------

package render

//-----------------------------------------------------------------------------

const tolerance = 1e-9
const epsilon = 1e-12

//-----------------------------------------------------------------------------

// nextCombination generates the next k-length combination of 0 to n-1. (returns false when done).
func nextCombination(n int, a []int) bool {
	k := len(a)
	m := 0
	i := 0
	for {
		i++
		if i > k {
			return false
		}
		if a[k-i] < n-i {
			m = a[k-i]
			for j := i; j >= 1; j-- {
				m++
				a[k-j] = m
			}
			return true
		}
	}
}

// mapCombinations applies a function f to each k-length combination from 0 to n-1.
func mapCombinations(n, k int, f func([]int)) {
	if k >= 0 && n >= k {
		a := make([]int, k)
		for i := range a {
			a[i] = i
		}
		for {
			f(a)
			if nextCombination(n, a) == false {
				break
			}
		}
	}
}

//-----------------------------------------------------------------------------
