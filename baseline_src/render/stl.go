//-----------------------------------------------------------------------------
/*

STL Load/Save

*/
//-----------------------------------------------------------------------------

package render

import (
	"bufio"
	"encoding/binary"
	"fmt"
	"os"
	"strconv"
	"strings"
	"sync"

	"github.com/deadsy/sdfx/sdf"
	v3 "github.com/deadsy/sdfx/vec/v3"
)

//-----------------------------------------------------------------------------

// STLHeader defines the STL file header.
type STLHeader struct {
	_     [80]uint8 // Header
	Count uint32    // Number of triangles
}

// STLTriangle defines the triangle data within an STL file.
type STLTriangle struct {
	Normal, Vertex1, Vertex2, Vertex3 [3]float32
	_                                 uint16 // Attribute byte count
}

//-----------------------------------------------------------------------------

// parseFloats converts float value strings to []float64.
func parseFloats(in []string) ([]float64, error) {
	out := make([]float64, len(in))
	for i := range in {
		val, err := strconv.ParseFloat(in[i], 64)
		if err != nil {
			return nil, err
		}
		out[i] = val
	}
	return out, nil
}

// loadSTLAscii loads an STL file created in ASCII format.
func loadSTLAscii(file *os.File) ([]*sdf.Triangle3, error) {
	var v []v3.Vec
	scanner := bufio.NewScanner(file)
	for scanner.Scan() {
		line := scanner.Text()
		fields := strings.Fields(line)
		if len(fields) == 4 && fields[0] == "vertex" {
			f, err := parseFloats(fields[1:])
			if err != nil {
				return nil, err
			}
			v = append(v, v3.Vec{f[0], f[1], f[2]})
		}
	}
	if len(v)%3 != 0 {
		return nil, fmt.Errorf("number of vertices (%d) is not a multiple of 3", len(v))
	}
	// make triangles out of every 3 vertices
	var mesh []*sdf.Triangle3
	for i := 0; i < len(v); i += 3 {
		mesh = append(mesh, &sdf.Triangle3{v[i+0], v[i+1], v[i+2]})
	}
	return mesh, scanner.Err()
}

// loadSTLBinary loads an STL file created in binary format.
func loadSTLBinary(file *os.File) ([]*sdf.Triangle3, error) {
	r := bufio.NewReader(file)
	header := STLHeader{}
	if err := binary.Read(r, binary.LittleEndian, &header); err != nil {
		return nil, err
	}
	mesh := make([]*sdf.Triangle3, int(header.Count))
	for i := range mesh {
		d := STLTriangle{}
		if err := binary.Read(r, binary.LittleEndian, &d); err != nil {
			return nil, err
		}
		v1 := v3.Vec{float64(d.Vertex1[0]), float64(d.Vertex1[1]), float64(d.Vertex1[2])}
		v2 := v3.Vec{float64(d.Vertex2[0]), float64(d.Vertex2[1]), float64(d.Vertex2[2])}
		v3 := v3.Vec{float64(d.Vertex3[0]), float64(d.Vertex3[1]), float64(d.Vertex3[2])}
		mesh[i] = &sdf.Triangle3{v1, v2, v3}
	}
	return mesh, nil
}

// LoadSTL loads an STL file (ascii or binary) and returns the triangle mesh.
func LoadSTL(path string) ([]*sdf.Triangle3, error) {
	// open file
	file, err := os.Open(path)
	if err != nil {
		return nil, err
	}
	defer file.Close()

	// get file size
	info, err := file.Stat()
	if err != nil {
		return nil, err
	}
	size := info.Size()

	// read header, get expected binary size
	header := STLHeader{}
	if err := binary.Read(file, binary.LittleEndian, &header); err != nil {
		return nil, err
	}
	expectedSize := int64(header.Count)*50 + 84

	// rewind to start of file
	_, err = file.Seek(0, 0)
	if err != nil {
		return nil, err
	}

	// parse ascii or binary stl
	if size == expectedSize {
		return loadSTLBinary(file)
	}
	return loadSTLAscii(file)
}

//-----------------------------------------------------------------------------

// SaveSTL writes a triangle mesh to an STL file.
func SaveSTL(path string, mesh []*sdf.Triangle3) error {
	file, err := os.Create(path)
	if err != nil {
		return err
	}
	defer file.Close()

	buf := bufio.NewWriter(file)
	header := STLHeader{}
	header.Count = uint32(len(mesh))
	if err := binary.Write(buf, binary.LittleEndian, &header); err != nil {
		return err
	}

	var d STLTriangle
	for _, triangle := range mesh {
		n := triangle.Normal()
		d.Normal[0] = float32(n.X)
		d.Normal[1] = float32(n.Y)
		d.Normal[2] = float32(n.Z)
		d.Vertex1[0] = float32(triangle[0].X)
		d.Vertex1[1] = float32(triangle[0].Y)
		d.Vertex1[2] = float32(triangle[0].Z)
		d.Vertex2[0] = float32(triangle[1].X)
		d.Vertex2[1] = float32(triangle[1].Y)
		d.Vertex2[2] = float32(triangle[1].Z)
		d.Vertex3[0] = float32(triangle[2].X)
		d.Vertex3[1] = float32(triangle[2].Y)
		d.Vertex3[2] = float32(triangle[2].Z)
		if err := binary.Write(buf, binary.LittleEndian, &d); err != nil {
			return err
		}
	}

	return buf.Flush()
}

//-----------------------------------------------------------------------------

// writeSTL writes a stream of triangles to an STL file.
func writeSTL(wg *sync.WaitGroup, path string) (chan<- []*sdf.Triangle3, error) {

	f, err := os.Create(path)
	if err != nil {
		return nil, err
	}

	// Use buffered IO for optimal IO writes.
	// The default buffer size doesn't appear to limit performance.
	buf := bufio.NewWriter(f)

	// write an empty header
	hdr := STLHeader{}
	if err := binary.Write(buf, binary.LittleEndian, &hdr); err != nil {
		return nil, err
	}

	// External code writes triangles to this channel.
	// This goroutine reads the channel and writes triangles to the file.
	c := make(chan []*sdf.Triangle3)

	wg.Add(1)
	go func() {
		defer wg.Done()
		defer f.Close()

		var count uint32
		var d STLTriangle
		// read triangles from the channel and write them to the file
		for ts := range c {
			for _, t := range ts {
				n := t.Normal()
				d.Normal[0] = float32(n.X)
				d.Normal[1] = float32(n.Y)
				d.Normal[2] = float32(n.Z)
				d.Vertex1[0] = float32(t[0].X)
				d.Vertex1[1] = float32(t[0].Y)
				d.Vertex1[2] = float32(t[0].Z)
				d.Vertex2[0] = float32(t[1].X)
				d.Vertex2[1] = float32(t[1].Y)
				d.Vertex2[2] = float32(t[1].Z)
				d.Vertex3[0] = float32(t[2].X)
				d.Vertex3[1] = float32(t[2].Y)
				d.Vertex3[2] = float32(t[2].Z)
				if err := binary.Write(buf, binary.LittleEndian, &d); err != nil {
					fmt.Printf("%s\n", err)
					return
				}
				count++
			}
		}
		// flush the triangles
		buf.Flush()

		// back to the start of the file
		if _, err := f.Seek(0, 0); err != nil {
			fmt.Printf("%s\n", err)
			return
		}
		// rewrite the header with the correct mesh count
		hdr.Count = count
		if err := binary.Write(f, binary.LittleEndian, &hdr); err != nil {
			fmt.Printf("%s\n", err)
			return
		}
	}()

	return c, nil
}

//-----------------------------------------------------------------------------
