//-----------------------------------------------------------------------------
/*

2D Rendering Code

*/
//-----------------------------------------------------------------------------

package render

import (
	"image"
	"image/color"
	"image/png"
	"math"
	"os"

	"github.com/deadsy/sdfx/sdf"
	v2 "github.com/deadsy/sdfx/vec/v2"
	"github.com/deadsy/sdfx/vec/v2i"
	"github.com/llgcode/draw2d/draw2dimg"
)

//-----------------------------------------------------------------------------

// PNG is a png image object.
type PNG struct {
	name   string
	bb     sdf.Box2
	pixels v2i.Vec
	m      *sdf.Map2
	img    *image.RGBA
}

// NewPNG returns an empty PNG object.
func NewPNG(name string, bb sdf.Box2, pixels v2i.Vec) (*PNG, error) {
	d := PNG{}
	d.name = name
	d.bb = bb
	d.pixels = pixels
	m, err := sdf.NewMap2(bb, pixels, true)
	if err != nil {
		return nil, err
	}
	d.m = m
	d.img = image.NewRGBA(image.Rect(0, 0, pixels.X-1, pixels.Y-1))
	return &d, nil
}

// RenderSDF2 renders a 2d signed distance field as gray scale.
func (d *PNG) RenderSDF2(s sdf.SDF2) {
	d.RenderSDF2MinMax(s, 0, 0)
}

// RenderSDF2MinMax renders a 2d signed distance field as gray scale (with defined min/max levels).
func (d *PNG) RenderSDF2MinMax(s sdf.SDF2, dmin, dmax float64) {
	// sample the distance field
	minMaxSet := dmin != 0 && dmax != 0
	if !minMaxSet {
		//distance := make([]float64, d.pixels[0]*d.pixels[1]) // Less allocations: faster (70ms -> 60ms), use cache in SDF if needed
		for x := 0; x < d.pixels.X; x++ {
			for y := 0; y < d.pixels.Y; y++ {
				d := s.Evaluate(d.m.ToV2(v2i.Vec{x, y}))
				dmax = math.Max(dmax, d)
				dmin = math.Min(dmin, d)
			}
		}
	}
	// scale and set the pixel values
	for x := 0; x < d.pixels.X; x++ {
		for y := 0; y < d.pixels.Y; y++ {
			dist := s.Evaluate(d.m.ToV2(v2i.Vec{x, y}))
			d.img.Set(x, y, color.Gray{Y: uint8(255 * imageColor2(dist, dmin, dmax))})
		}
	}
}

// imageColor2 returns the grayscale color for the returned SDF2.Evaluate value, given the reference minimum and maximum
// SDF2.Evaluate values. The returned value is in the range [0, 1].
func imageColor2(dist, dmin, dmax float64) float64 {
	// Clamp due to possibly forced min and max
	var val float64
	// NOTE: This condition forces the surface to be close to 0.5 gray value, otherwise dmax >>> dmin or viceversa
	// could cause the surface to be displaced visually
	if dist >= 0 {
		val = math.Max(0.5, math.Min(1, 0.5+0.5*((dist)/(dmax))))
	} else { // Force lower scale for inside surface
		val = math.Max(0, math.Min(0.5, 0.5*((dist-dmin)/(-dmin))))
	}
	return val
}

// Line adds a line to a png object.
func (d *PNG) Line(p0, p1 v2.Vec) {
	gc := draw2dimg.NewGraphicContext(d.img)
	gc.SetFillColor(color.RGBA{0xff, 0, 0, 0xff})
	gc.SetStrokeColor(color.RGBA{0xff, 0, 0, 0xff})
	gc.SetLineWidth(1)

	p := d.m.ToV2i(p0)
	gc.MoveTo(float64(p.X), float64(p.Y))
	p = d.m.ToV2i(p1)
	gc.LineTo(float64(p.X), float64(p.Y))
	gc.Stroke()
}

// Lines adds a set of lines line to a png object.
func (d *PNG) Lines(s v2.VecSet) {
	gc := draw2dimg.NewGraphicContext(d.img)
	gc.SetFillColor(color.RGBA{0xff, 0, 0, 0xff})
	gc.SetStrokeColor(color.RGBA{0xff, 0, 0, 0xff})
	gc.SetLineWidth(1)

	p := d.m.ToV2i(s[0])
	gc.MoveTo(float64(p.X), float64(p.Y))
	for i := 1; i < len(s); i++ {
		p := d.m.ToV2i(s[i])
		gc.LineTo(float64(p.X), float64(p.Y))
	}
	gc.Stroke()
}

// Triangle adds a triangle to a png object.
func (d *PNG) Triangle(t sdf.Triangle2) {
	d.Lines([]v2.Vec{t[0], t[1], t[2], t[0]})
}

// Save saves a png object to a file.
func (d *PNG) Save() error {
	f, err := os.Create(d.name)
	if err != nil {
		return err
	}
	defer f.Close()
	return png.Encode(f, d.img)
}

// Image returns the rendered image instead of writing it to a file
func (d *PNG) Image() *image.RGBA {
	return d.img
}

//-----------------------------------------------------------------------------
