//-----------------------------------------------------------------------------
/*

Delaunay Triangulation

See:
http://www.mathopenref.com/trianglecircumcircle.html
http://paulbourke.net/papers/triangulate/
Computational Geometry, Joseph O'Rourke, 2nd edition, Code 5.1

*/
//-----------------------------------------------------------------------------

package render

import (
	"errors"
	"sort"

	"github.com/deadsy/sdfx/sdf"
	"github.com/deadsy/sdfx/vec/conv"
	v2 "github.com/deadsy/sdfx/vec/v2"
)

//-----------------------------------------------------------------------------

// TriangleI is a 2d/3d triangle referencing a list of vertices.
type TriangleI [3]int

// ToTriangle2 given vertex indices and the vertex array, return the triangle with real vertices.
func (t TriangleI) ToTriangle2(p []v2.Vec) sdf.Triangle2 {
	return sdf.Triangle2{p[t[0]], p[t[1]], p[t[2]]}
}

// TriangleIByIndex sorts triangles by index.
type TriangleIByIndex []TriangleI

func (a TriangleIByIndex) Len() int {
	return len(a)
}
func (a TriangleIByIndex) Swap(i, j int) {
	a[i], a[j] = a[j], a[i]
}
func (a TriangleIByIndex) Less(i, j int) bool {
	if a[i][0] < a[j][0] {
		return true
	}
	if a[i][0] == a[j][0] && a[i][1] < a[j][1] {
		return true
	}
	if a[i][0] == a[j][0] && a[i][1] == a[j][1] && a[i][2] < a[j][2] {
		return true
	}
	return false
}

// Canonical converts a triangle to it's lowest index first form.
// Preserve the winding order.
func (t *TriangleI) Canonical() {
	if t[0] < t[1] && t[0] < t[2] {
		// ok
		return
	}
	if t[1] < t[0] && t[1] < t[2] {
		// t[1] is the smallest
		tmp := t[0]
		t[0] = t[1]
		t[1] = t[2]
		t[2] = tmp
		return
	}
	// t[2] is the smallest
	tmp := t[2]
	t[2] = t[1]
	t[1] = t[0]
	t[0] = tmp
}

// TriangleISet is a set of triangles defined by vertice indices.
type TriangleISet []TriangleI

// Canonical converts a triangle set to it's canonical form.
// This common form is used to facilitate comparison
// between the results of different implementations.
func (ts TriangleISet) Canonical() []TriangleI {
	// convert each triangle to it's lowest index first form
	for i := range ts {
		ts[i].Canonical()
	}
	// sort the triangles by index
	sort.Sort(TriangleIByIndex(ts))
	return ts
}

// Equals tests two triangle sets for equality.
func (ts TriangleISet) Equals(s TriangleISet) bool {
	if len(ts) != len(s) {
		return false
	}
	ts = ts.Canonical()
	s = s.Canonical()
	for i := range ts {
		if (ts[i][0] != s[i][0]) ||
			(ts[i][1] != s[i][1]) ||
			(ts[i][2] != s[i][2]) {
			return false
		}
	}
	return true
}

//-----------------------------------------------------------------------------

// EdgeI is a 2d/3d edge referencing a list of vertices.
type EdgeI [2]int

//-----------------------------------------------------------------------------

// superTriangle return the super triangle of a point set, ie: 3 vertices enclosing all points.
func superTriangle(vs v2.VecSet) (sdf.Triangle2, error) {

	if len(vs) == 0 {
		return sdf.Triangle2{}, errors.New("no vertices")
	}

	var p v2.Vec
	var k float64

	if len(vs) == 1 {
		// a single point
		p := vs[0]
		k = p.MaxComponent() * 0.125
		if k == 0 {
			k = 1
		}
	} else {
		b := sdf.Box2{vs.Min(), vs.Max()}
		p = b.Center()
		k = b.Size().MaxComponent() * 2.0
	}

	// Note: super triangles should be large enough to avoid having the circumcenter of
	// any triangle lie outside of the super triangle. This is kludgey. For thin triangles
	// on the hull the circumcenter is going to be arbitrarily far away.
	k *= 4096.0

	p0 := p.Add(v2.Vec{-k, -k})
	p1 := p.Add(v2.Vec{0, k})
	p2 := p.Add(v2.Vec{k, -k})
	return sdf.Triangle2{p0, p1, p2}, nil
}

//-----------------------------------------------------------------------------

// Delaunay2d returns the delaunay triangulation of a 2d point set.
func Delaunay2d(vs v2.VecSet) (TriangleISet, error) {

	// number of vertices
	n := len(vs)

	// sort the vertices by x value
	sort.Sort(v2.VecSetByX(vs))

	// work out the super triangle
	t, err := superTriangle(vs)
	if err != nil {
		return nil, err
	}

	// add the super triangle to the vertex set
	vs = append(vs, t[:]...)

	// allocate the triangles
	k := (2 * n) + 1
	ts := make([]TriangleI, 0, k)
	done := make([]bool, 0, k)

	// set the super triangle as the 0th triangle
	ts = append(ts, TriangleI{n, n + 1, n + 2})
	done = append(done, false)

	// Add the vertices one at a time into the mesh
	// Note: we don't iterate over the super triangle vertices
	for i := 0; i < n; i++ {
		v := vs[i]

		// Create the edge buffer.
		// If the vertex lies inside the circumcircle of the triangle
		// then the three edges of that triangle are added to the edge
		// buffer and that triangle is removed.
		es := make([]EdgeI, 0, 64)
		nt := len(ts)
		for j := 0; j < nt; j++ {
			if done[j] {
				continue
			}

			t := ts[j].ToTriangle2(vs)
			inside, complete := t.InCircumcircle(v)
			done[j] = complete

			if inside {
				// add the triangle edges to the edge set
				es = append(es, EdgeI{ts[j][0], ts[j][1]})
				es = append(es, EdgeI{ts[j][1], ts[j][2]})
				es = append(es, EdgeI{ts[j][2], ts[j][0]})
				// remove the triangle (copy in the tail)
				ts[j] = ts[nt-1]
				done[j] = done[nt-1]
				nt--
				j--
			}
		}

		// re-size the triangle/done sets
		ts = ts[:nt]
		done = done[:nt]

		// Tag duplicate edges for removal.
		for j := 0; j < len(es)-1; j++ {
			for k := j + 1; k < len(es); k++ {
				if (es[j][0] == es[k][1] && es[j][1] == es[k][0]) ||
					(es[j][1] == es[k][1] && es[j][0] == es[k][0]) {
					es[j] = EdgeI{-1, -1}
					es[k] = EdgeI{-1, -1}
				}
			}
		}

		// Form new triangles for the current point skipping over any duplicate edges.
		for _, e := range es {
			if e[0] < 0 || e[1] < 0 {
				continue
			}
			ts = append(ts, TriangleI{e[0], e[1], i})
			done = append(done, false)
		}
	}

	// remove any triangles with vertices from the super triangle
	nt := len(ts)
	for j := 0; j < nt; j++ {
		t := ts[j]
		if t[0] >= n || t[1] >= n || t[2] >= n {
			// remove the triangle (copy in the tail)
			ts[j] = ts[nt-1]
			nt--
			j--
		}
	}

	// re-size the triangle set
	ts = ts[:nt]

	// done
	return ts, nil
}

//-----------------------------------------------------------------------------

// Delaunay2dSlow returns the delaunay triangulation of a 2d point set.
// This is a slow reference implementation for testing faster algorithms.
// See: Computational Geometry, Joseph O'Rourke, 2nd edition, Code 5.1
func Delaunay2dSlow(vs v2.VecSet) (TriangleISet, error) {

	// number of vertices
	n := len(vs)
	if n < 3 {
		return nil, errors.New("number of vertices < 3")
	}

	// map the 2d points onto a 3d parabola
	z := make([]float64, n)
	for i, v := range vs {
		z[i] = v.Length2()
	}

	// make the set of triangles
	ts := make([]TriangleI, 0, (2*n)+1)

	// iterate through all the possible triangles
	c := []int{0, 1, 2}

	for {

		t := TriangleI{c[0], c[1], c[2]}

		p0 := conv.V2ToV3(vs[t[0]], z[t[0]])
		p1 := conv.V2ToV3(vs[t[1]], z[t[1]])
		p2 := conv.V2ToV3(vs[t[2]], z[t[2]])

		norm := p1.Sub(p0).Cross(p2.Sub(p1))

		// we want to consider triangles whose normal faces in the -ve z direction
		if norm.Z > 0 {
			// swap the triangle handed-ness to flip the normal
			t[1], t[2] = t[2], t[1]
			norm = norm.MulScalar(-1.0)
		}

		// Are there any vertices below this plane?
		hull := true
		for i, v := range vs {
			if i == t[0] || i == t[1] || i == t[2] {
				// on the plane
				continue
			}
			pi := conv.V2ToV3(v, z[i])
			if pi.Sub(p0).Dot(norm) > 0 {
				// below the plane
				hull = false
				break
			}
		}

		if hull {
			// there are no vertices below this triangles plane
			// so it is part of the lower convex hull.
			ts = append(ts, t)
		}

		// get the next triangle
		if nextCombination(n, c) == false {
			break
		}
	}

	// done
	return ts, nil
}

//-----------------------------------------------------------------------------
