//-----------------------------------------------------------------------------
/*

Marching Squares Quadtree

Convert an SDF2 boundary to a set of line segments.
Uses quadtree space subdivision.

*/
//-----------------------------------------------------------------------------

package render

import (
	"fmt"
	"math"
	"sync"

	"github.com/deadsy/sdfx/sdf"
	"github.com/deadsy/sdfx/vec/conv"
	v2 "github.com/deadsy/sdfx/vec/v2"
	"github.com/deadsy/sdfx/vec/v2i"
)

//-----------------------------------------------------------------------------

type square struct {
	v v2i.Vec // origin of square as integers
	n uint    // level of square, size = 1 << n
}

//-----------------------------------------------------------------------------
// Evaluate the SDF2 via a distance cache to avoid repeated evaluations.

type dcache2 struct {
	origin     v2.Vec              // origin of the overall bounding square
	resolution float64             // size of smallest quadtree square
	hdiag      []float64           // lookup table of square half diagonals
	s          sdf.SDF2            // the SDF2 to be rendered
	cache      map[v2i.Vec]float64 // cache of distances
	lock       sync.RWMutex        // lock the the cache during reads/writes
}

func newDcache2(s sdf.SDF2, origin v2.Vec, resolution float64, n uint) *dcache2 {
	dc := dcache2{
		origin:     origin,
		resolution: resolution,
		hdiag:      make([]float64, n),
		s:          s,
		cache:      make(map[v2i.Vec]float64),
	}
	// build a lut for cube half diagonal lengths
	for i := range dc.hdiag {
		si := 1 << uint(i)
		s := float64(si) * dc.resolution
		dc.hdiag[i] = 0.5 * math.Sqrt(2.0*s*s)
	}
	return &dc
}

// read from the cache
func (dc *dcache2) read(vi v2i.Vec) (float64, bool) {
	dc.lock.RLock()
	dist, found := dc.cache[vi]
	dc.lock.RUnlock()
	return dist, found
}

// write to the cache
func (dc *dcache2) write(vi v2i.Vec, dist float64) {
	dc.lock.Lock()
	dc.cache[vi] = dist
	dc.lock.Unlock()
}

func (dc *dcache2) evaluate(vi v2i.Vec) (v2.Vec, float64) {
	v := dc.origin.Add(conv.V2iToV2(vi).MulScalar(dc.resolution))
	// do we have it in the cache?
	dist, found := dc.read(vi)
	if found {
		return v, dist
	}
	// evaluate the SDF2
	dist = dc.s.Evaluate(v)
	// write it to the cache
	dc.write(vi, dist)
	return v, dist
}

// isEmpty returns true if the square contains no SDF surface
func (dc *dcache2) isEmpty(c *square) bool {
	// evaluate the SDF2 at the center of the square
	s := 1 << (c.n - 1) // half side
	_, d := dc.evaluate(c.v.AddScalar(s))
	// compare to the center/corner distance
	return math.Abs(d) >= dc.hdiag[c.n]
}

// Process a square. Generate line segments, or more squares.
func (dc *dcache2) processSquare(c *square, output sdf.Line2Writer) {
	if !dc.isEmpty(c) {
		if c.n == 1 {
			// this square is at the required resolution
			c0, d0 := dc.evaluate(c.v.Add(v2i.Vec{0, 0}))
			c1, d1 := dc.evaluate(c.v.Add(v2i.Vec{2, 0}))
			c2, d2 := dc.evaluate(c.v.Add(v2i.Vec{2, 2}))
			c3, d3 := dc.evaluate(c.v.Add(v2i.Vec{0, 2}))
			corners := [4]v2.Vec{c0, c1, c2, c3}
			values := [4]float64{d0, d1, d2, d3}
			// output the line(s) for this square
			output.Write(msToLines(corners, values, 0))
		} else {
			// process the sub squares
			n := c.n - 1
			s := 1 << n
			// TODO - turn these into throttled go-routines
			dc.processSquare(&square{c.v.Add(v2i.Vec{0, 0}), n}, output)
			dc.processSquare(&square{c.v.Add(v2i.Vec{s, 0}), n}, output)
			dc.processSquare(&square{c.v.Add(v2i.Vec{s, s}), n}, output)
			dc.processSquare(&square{c.v.Add(v2i.Vec{0, s}), n}, output)
		}
	}
}

//-----------------------------------------------------------------------------

// marchingSquaresQuadtree generates line segments for an SDF2 using quadtree subdivision.
func marchingSquaresQuadtree(s sdf.SDF2, resolution float64, output sdf.Line2Writer) {
	// Scale the bounding box about the center to make sure the boundaries
	// aren't on the object surface.
	bb := s.BoundingBox()
	bb = bb.ScaleAboutCenter(1.01)
	longAxis := bb.Size().MaxComponent()
	// We want to test the smallest squares (side == resolution) for emptiness
	// so the level = 0 cube is at half resolution.
	resolution = 0.5 * resolution
	// how many cube levels for the quadtree?
	levels := uint(math.Ceil(math.Log2(longAxis/resolution))) + 1
	// create the distance cache
	dc := newDcache2(s, bb.Min, resolution, levels)
	// process the quadtree, start at the top level
	dc.processSquare(&square{v2i.Vec{0, 0}, levels - 1}, output)
	output.Close()
}

//-----------------------------------------------------------------------------

// MarchingSquaresQuadtree renders using marching squares with quadtree area sampling.
type MarchingSquaresQuadtree struct {
	meshCells int // number of cells on the longest axis of bounding box. e.g 200
}

// NewMarchingSquaresQuadtree returns a Render2 object.
func NewMarchingSquaresQuadtree(meshCells int) *MarchingSquaresQuadtree {
	return &MarchingSquaresQuadtree{
		meshCells: meshCells,
	}
}

// Info returns a string describing the rendered area.
func (r *MarchingSquaresQuadtree) Info(s sdf.SDF2) string {
	bbSize := s.BoundingBox().Size()
	resolution := bbSize.MaxComponent() / float64(r.meshCells)
	cells := conv.V2ToV2i(bbSize.MulScalar(1 / resolution))
	return fmt.Sprintf("%dx%d, resolution %.2f", cells.X, cells.Y, resolution)
}

// Render produces a 2d line mesh over the bounding area of an sdf2.
func (r *MarchingSquaresQuadtree) Render(s sdf.SDF2, output sdf.Line2Writer) {
	bbSize := s.BoundingBox().Size()
	resolution := bbSize.MaxComponent() / float64(r.meshCells)
	marchingSquaresQuadtree(s, resolution, output)
}

//-----------------------------------------------------------------------------
