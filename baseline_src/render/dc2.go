//-----------------------------------------------------------------------------
/*

2d Dual Contouring Renderer

Resources:

https://www.mattkeeter.com/projects/contours/
https://www.graphics.rwth-aachen.de/publication/131/feature1.pdf
https://www.boristhebrave.com/2018/04/15/dual-contouring-tutorial/


1) create the dual graph
2) position the vertices within the non empty leaf nodes
3) merge leaf cells for mesh simplification

*/
//-----------------------------------------------------------------------------

package render

import (
	"fmt"
	"math"

	"github.com/deadsy/sdfx/sdf"
	"github.com/deadsy/sdfx/vec/conv"
	v2 "github.com/deadsy/sdfx/vec/v2"
	"github.com/deadsy/sdfx/vec/v2i"
)

//-----------------------------------------------------------------------------

// norm2 returns the normal to the SDF2 at a point.
func norm2(s sdf.SDF2, p v2.Vec, epsilon float64) v2.Vec {
	return v2.Vec{
		s.Evaluate(v2.Vec{p.X + epsilon, p.Y}) - s.Evaluate(v2.Vec{p.X - epsilon, p.Y}),
		s.Evaluate(v2.Vec{p.X, p.Y + epsilon}) - s.Evaluate(v2.Vec{p.X, p.Y - epsilon}),
	}.Normalize()
}

//-----------------------------------------------------------------------------

type node2 struct {
	v     v2i.Vec // origin of square as integers
	n     uint    // level of square, size = 1 << n
	child []node2 // child nodes
}

type dc2 struct {
	origin     v2.Vec              // origin of the overall bounding square
	resolution float64             // size of smallest quadtree square
	hdiag      []float64           // lookup table of square half diagonals
	s          sdf.SDF2            // the SDF2 to be rendered
	cache      map[v2i.Vec]float64 // cache of distances
}

func newDualContouring2(s sdf.SDF2, origin v2.Vec, resolution float64, n uint) *dc2 {
	dc := dc2{
		origin:     origin,
		resolution: resolution,
		hdiag:      make([]float64, n),
		s:          s,
		cache:      make(map[v2i.Vec]float64),
	}
	// build a lut for cube half diagonal lengths
	for i := range dc.hdiag {
		si := 1 << uint(i)
		s := float64(si) * dc.resolution
		dc.hdiag[i] = 0.5 * math.Sqrt(2.0*s*s)
	}
	return &dc
}

// read from the cache
func (dc *dc2) read(vi v2i.Vec) (float64, bool) {
	dist, found := dc.cache[vi]
	return dist, found
}

// write to the cache
func (dc *dc2) write(vi v2i.Vec, dist float64) {
	dc.cache[vi] = dist
}

func (dc *dc2) evaluate(vi v2i.Vec) (v2.Vec, float64) {
	v := dc.origin.Add(conv.V2iToV2(vi).MulScalar(dc.resolution))
	// do we have it in the cache?
	dist, found := dc.read(vi)
	if found {
		return v, dist
	}
	// evaluate the SDF2
	dist = dc.s.Evaluate(v)
	// write it to the cache
	dc.write(vi, dist)
	return v, dist
}

// isEmpty returns true if the node contains no SDF surface
func (dc *dc2) isEmpty(c *node2) bool {
	// evaluate the SDF2 at the center of the square
	s := 1 << (c.n - 1) // half side
	_, d := dc.evaluate(c.v.AddScalar(s))
	// compare to the center/corner distance
	return math.Abs(d) >= dc.hdiag[c.n]
}

func (dc *dc2) processNode(node *node2) {
	if !dc.isEmpty(node) {
		if node.n == 1 {

		} else {
			// create the sub-nodes
			n := node.n - 1
			s := 1 << n
			node.child = make([]node2, 4)
			node.child[0].v = node.v.Add(v2i.Vec{0, 0})
			node.child[0].n = n
			node.child[1].v = node.v.Add(v2i.Vec{s, 0})
			node.child[1].n = n
			node.child[2].v = node.v.Add(v2i.Vec{s, s})
			node.child[2].n = n
			node.child[3].v = node.v.Add(v2i.Vec{0, s})
			node.child[3].n = n
			// process the sub-nodes
			dc.processNode(&node.child[0])
			dc.processNode(&node.child[1])
			dc.processNode(&node.child[2])
			dc.processNode(&node.child[3])
		}
	}
}

//-----------------------------------------------------------------------------

func (dc *dc2) corner(vi v2i.Vec) v2.Vec {
	return dc.origin.Add(conv.V2iToV2(vi).MulScalar(dc.resolution))
}

func (dc *dc2) drawNode(node *node2, output sdf.Line2Writer) {

	k := int(node.n) * 2

	c0 := dc.corner(node.v.Add(v2i.Vec{0, 0}))
	c1 := dc.corner(node.v.Add(v2i.Vec{k, 0}))
	c2 := dc.corner(node.v.Add(v2i.Vec{k, k}))
	c3 := dc.corner(node.v.Add(v2i.Vec{0, k}))

	l0 := sdf.Line2{c0, c1}
	l1 := sdf.Line2{c1, c2}
	l2 := sdf.Line2{c2, c3}
	l3 := sdf.Line2{c3, c0}

	output.Write([]*sdf.Line2{&l0, &l1, &l2, &l3})
}

func (dc *dc2) qtOutput(node *node2, output sdf.Line2Writer) {
	if node.child != nil {
		dc.qtOutput(&node.child[0], output)
		dc.qtOutput(&node.child[1], output)
		dc.qtOutput(&node.child[2], output)
		dc.qtOutput(&node.child[3], output)
	} else {

		if node.n == 1 {
			dc.drawNode(node, output)
		}
	}
}

// dualContouring2D generates line segments for an SDF2 using dual contouring.
func dualContouring2D(s sdf.SDF2, resolution float64, output sdf.Line2Writer) {
	// Scale the bounding box about the center to make sure the boundaries
	// aren't on the object surface.
	bb := s.BoundingBox()
	bb = bb.ScaleAboutCenter(1.01)
	longAxis := bb.Size().MaxComponent()
	// We want to test the smallest squares (side == resolution) for emptiness
	// so the level = 0 cube is at half resolution.
	resolution = 0.5 * resolution
	// how many cube levels for the quadtree?
	levels := uint(math.Ceil(math.Log2(longAxis/resolution))) + 1
	// create the dual contouring state
	dc := newDualContouring2(s, bb.Min, resolution, levels)
	// process the quadtree, start at the top level
	topNode := node2{v: v2i.Vec{0, 0}, n: levels - 1}
	dc.processNode(&topNode)
	dc.qtOutput(&topNode, output)
	output.Close()
}

//-----------------------------------------------------------------------------

// DualContouring2D renders is a 2D dual contouring renderer.
type DualContouring2D struct {
	meshCells int // number of cells on the longest axis of bounding box. e.g 200
}

// NewDualContouring2D returns a Render2 object.
func NewDualContouring2D(meshCells int) *DualContouring2D {
	return &DualContouring2D{
		meshCells: meshCells,
	}
}

// Info returns a string describing the rendered area.
func (r *DualContouring2D) Info(s sdf.SDF2) string {
	bbSize := s.BoundingBox().Size()
	resolution := bbSize.MaxComponent() / float64(r.meshCells)
	cells := conv.V2ToV2i(bbSize.MulScalar(1 / resolution))
	return fmt.Sprintf("%dx%d, resolution %.2f", cells.X, cells.Y, resolution)
}

// Render produces a 2d line mesh over the bounding area of an sdf2.
func (r *DualContouring2D) Render(s sdf.SDF2, output sdf.Line2Writer) {
	bbSize := s.BoundingBox().Size()
	resolution := bbSize.MaxComponent() / float64(r.meshCells)
	dualContouring2D(s, resolution, output)
}

//-----------------------------------------------------------------------------
