//-----------------------------------------------------------------------------
/*

Floating Point 2D Vectors

*/
//-----------------------------------------------------------------------------

package v2

import "math"

//-----------------------------------------------------------------------------

// clamp x between a and b, assume a <= b
func clamp(x, a, b float64) float64 {
	if x < a {
		return a
	}
	if x > b {
		return b
	}
	return x
}

//-----------------------------------------------------------------------------

// Vec is a 2D float64 vector.
type Vec struct {
	X, Y float64
}

//-----------------------------------------------------------------------------

// Equals returns true if a == b within the tolerance limit.
func (a Vec) Equals(b Vec, tolerance float64) bool {
	return (math.Abs(a.X-b.X) <= tolerance &&
		math.Abs(a.Y-b.Y) <= tolerance)
}

// LTZero returns true if any vector components are < 0.
func (a Vec) LTZero() bool {
	return (a.X < 0) || (a.Y < 0)
}

// LTEZero returns true if any vector components are < 0.
func (a Vec) LTEZero() bool {
	return (a.X <= 0) || (a.Y <= 0)
}

//-----------------------------------------------------------------------------

// Dot returns the dot product of a and b.
func (a Vec) Dot(b Vec) float64 {
	return a.X*b.X + a.Y*b.Y
}

// Cross returns the cross product of a and b.
func (a Vec) Cross(b Vec) float64 {
	return (a.X * b.Y) - (a.Y * b.X)
}

// AddScalar adds a scalar to each vector component.
func (a Vec) AddScalar(b float64) Vec {
	return Vec{a.X + b, a.Y + b}
}

// SubScalar subtracts a scalar from each vector component.
func (a Vec) SubScalar(b float64) Vec {
	return Vec{a.X - b, a.Y - b}
}

// MulScalar multiplies each vector component by a scalar.
func (a Vec) MulScalar(b float64) Vec {
	return Vec{a.X * b, a.Y * b}
}

// DivScalar divides each vector component by a scalar.
func (a Vec) DivScalar(b float64) Vec {
	return a.MulScalar(1 / b)
}

// Abs takes the absolute value of each vector component.
func (a Vec) Abs() Vec {
	return Vec{math.Abs(a.X), math.Abs(a.Y)}
}

// Ceil takes the ceiling value of each vector component.
func (a Vec) Ceil() Vec {
	return Vec{math.Ceil(a.X), math.Ceil(a.Y)}
}

// Clamp clamps a vector between 2 other vectors.
func (a Vec) Clamp(b, c Vec) Vec {
	return Vec{clamp(a.X, b.X, c.X), clamp(a.Y, b.Y, c.Y)}
}

// Min return a vector with the minimum components of two vectors.
func (a Vec) Min(b Vec) Vec {
	return Vec{math.Min(a.X, b.X), math.Min(a.Y, b.Y)}
}

// Max return a vector with the maximum components of two vectors.
func (a Vec) Max(b Vec) Vec {
	return Vec{math.Max(a.X, b.X), math.Max(a.Y, b.Y)}
}

// Add adds two vectors. Returns a + b.
func (a Vec) Add(b Vec) Vec {
	return Vec{a.X + b.X, a.Y + b.Y}
}

// Sub subtracts two vectors. Returns a - b.
func (a Vec) Sub(b Vec) Vec {
	return Vec{a.X - b.X, a.Y - b.Y}
}

// Mul multiplies two vectors by component.
func (a Vec) Mul(b Vec) Vec {
	return Vec{a.X * b.X, a.Y * b.Y}
}

// Div divides two vectors by component.
func (a Vec) Div(b Vec) Vec {
	return Vec{a.X / b.X, a.Y / b.Y}
}

// Neg negates a vector.
func (a Vec) Neg() Vec {
	return Vec{-a.X, -a.Y}
}

// Length returns the vector length.
func (a Vec) Length() float64 {
	return math.Sqrt(a.Length2())
}

// Length2 returns the vector length * length.
func (a Vec) Length2() float64 {
	return a.Dot(a)
}

// Normalize scales a vector to unit length.
func (a Vec) Normalize() Vec {
	return a.MulScalar(1 / a.Length())
}

// MinComponent returns the minimum component of the vector.
func (a Vec) MinComponent() float64 {
	return math.Min(a.X, a.Y)
}

// MaxComponent returns the maximum component of the vector.
func (a Vec) MaxComponent() float64 {
	return math.Max(a.X, a.Y)
}

//-----------------------------------------------------------------------------

// VecSet is a set of 2D float64 vectors.
type VecSet []Vec

// Min return the minimum components of a set of vectors.
func (a VecSet) Min() Vec {
	vmin := a[0]
	for _, v := range a {
		vmin = vmin.Min(v)
	}
	return vmin
}

// Max return the maximum components of a set of vectors.
func (a VecSet) Max() Vec {
	vmax := a[0]
	for _, v := range a {
		vmax = vmax.Max(v)
	}
	return vmax
}

//-----------------------------------------------------------------------------

// VecSetByX sorts the vector set by X value
type VecSetByX VecSet

func (a VecSetByX) Len() int           { return len(a) }
func (a VecSetByX) Swap(i, j int)      { a[i], a[j] = a[j], a[i] }
func (a VecSetByX) Less(i, j int) bool { return a[i].X < a[j].X }

//-----------------------------------------------------------------------------

// VecSetByXY sorts the vector set by X then Y
type VecSetByXY VecSet

func (a VecSetByXY) Len() int      { return len(a) }
func (a VecSetByXY) Swap(i, j int) { a[i], a[j] = a[j], a[i] }
func (a VecSetByXY) Less(i, j int) bool {
	if a[i].X != a[j].X {
		return a[i].X < a[j].X
	}
	return a[i].Y < a[j].Y
}

//-----------------------------------------------------------------------------
