//-----------------------------------------------------------------------------
/*

Vector Conversions

*/
//-----------------------------------------------------------------------------

package conv

import (
	"math"

	"github.com/deadsy/sdfx/vec/p2"
	v2 "github.com/deadsy/sdfx/vec/v2"
	"github.com/deadsy/sdfx/vec/v2i"
	v3 "github.com/deadsy/sdfx/vec/v3"
	"github.com/deadsy/sdfx/vec/v3i"
)

//-----------------------------------------------------------------------------
// V2i to X

// V2iToV2 converts a 2D integer vector to a float vector.
func V2iToV2(a v2i.Vec) v2.Vec {
	return v2.Vec{float64(a.X), float64(a.Y)}
}

//-----------------------------------------------------------------------------
// V3i to X

// V3iToV3 converts a 3D integer vector to a float vector.
func V3iToV3(a v3i.Vec) v3.Vec {
	return v3.Vec{float64(a.X), float64(a.Y), float64(a.Z)}
}

//-----------------------------------------------------------------------------
// V2 to X

// V2ToP2 converts a cartesian to a polar coordinate.
func V2ToP2(a v2.Vec) p2.Vec {
	return p2.Vec{a.Length(), math.Atan2(a.Y, a.X)}
}

// V2ToV3 converts a 2D vector to a 3D vector with a specified Z value.
func V2ToV3(a v2.Vec, z float64) v3.Vec {
	return v3.Vec{a.X, a.Y, z}
}

// V2ToV2i converts a 2D float vector to a 2D integer vector.
func V2ToV2i(a v2.Vec) v2i.Vec {
	return v2i.Vec{int(a.X), int(a.Y)}
}

//-----------------------------------------------------------------------------
// V3 to X

// V3ToV3i converts a 3D float vector to a 3D integer vector.
func V3ToV3i(a v3.Vec) v3i.Vec {
	return v3i.Vec{int(a.X), int(a.Y), int(a.Z)}
}

//-----------------------------------------------------------------------------
// P2 to X

// P2ToV2 converts a polar to a cartesian coordinate.
func P2ToV2(a p2.Vec) v2.Vec {
	return v2.Vec{a.R * math.Cos(a.Theta), a.R * math.Sin(a.Theta)}
}

//-----------------------------------------------------------------------------
