//-----------------------------------------------------------------------------
/*

Integer 2D Vectors

*/
//-----------------------------------------------------------------------------

package v2i

//-----------------------------------------------------------------------------

// Vec is a 2D integer vector.
type Vec struct {
	X, Y int
}

//-----------------------------------------------------------------------------

// AddScalar adds a scalar to each component of the vector.
func (a Vec) AddScalar(b int) Vec {
	return Vec{a.X + b, a.Y + b}
}

// SubScalar subtracts a scalar from each component of the vector.
func (a Vec) SubScalar(b int) Vec {
	return Vec{a.X - b, a.Y - b}
}

// Add adds two vectors. Return v = a + b.
func (a Vec) Add(b Vec) Vec {
	return Vec{a.X + b.X, a.Y + b.Y}
}

//-----------------------------------------------------------------------------
