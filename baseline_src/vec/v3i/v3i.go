//-----------------------------------------------------------------------------
/*

Integer 3D Vectors

*/
//-----------------------------------------------------------------------------

package v3i

//-----------------------------------------------------------------------------

// Vec is a 3D integer vector.
type Vec struct {
	X, Y, Z int
}

//-----------------------------------------------------------------------------

// AddScalar adds a scalar to each component of the vector.
func (a Vec) AddScalar(b int) Vec {
	return Vec{a.X + b, a.Y + b, a.Z + b}
}

// SubScalar subtracts a scalar from each component of the vector.
func (a Vec) SubScalar(b int) Vec {
	return Vec{a.X - b, a.Y - b, a.Z - b}
}

// Add adds two vectors. Return v = a + b.
func (a Vec) Add(b Vec) Vec {
	return Vec{a.X + b.X, a.Y + b.Y, a.Z + b.Z}
}

//-----------------------------------------------------------------------------
