module github.com/deadsy/sdfx

go 1.22

toolchain go1.23.0

require (
	github.com/ajstarks/svgo v0.0.0-20211024235047-1546f124cd8b
	github.com/dhconnelly/rtreego v1.2.0
	github.com/golang/freetype v0.0.0-20170609003504-e2365dfdc4a0
	github.com/hpinc/go3mf v0.24.2
	github.com/llgcode/draw2d v0.0.0-20240627062922-0ed1ff131195
	github.com/stretchr/testify v1.7.0
	github.com/yofu/dxf v0.0.0-20240729034626-50c66fc03e0d
	golang.org/x/image v0.22.0
	gonum.org/v1/gonum v0.15.1
)

require (
	github.com/davecgh/go-spew v1.1.0 // indirect
	github.com/pmezard/go-difflib v1.0.0 // indirect
	github.com/qmuntal/opc v0.7.12 // indirect
	gopkg.in/yaml.v3 v3.0.0 // indirect
)
