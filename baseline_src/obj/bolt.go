//-----------------------------------------------------------------------------
/*

Bolt: Simple Bolts for 3d printing.

*/
//-----------------------------------------------------------------------------

package obj

import (
	"fmt"

	"github.com/deadsy/sdfx/sdf"
	v3 "github.com/deadsy/sdfx/vec/v3"
)

//-----------------------------------------------------------------------------

// BoltParms defines the parameters for a bolt.
type BoltParms struct {
	Thread      string  // name of thread
	Style       string  // head style "hex" or "knurl"
	Tolerance   float64 // subtract from external thread radius
	TotalLength float64 // threaded length + shank length
	ShankLength float64 // non threaded length
}

// Bolt returns a simple bolt suitable for 3d printing.
func Bolt(k *BoltParms) (sdf.SDF3, error) {
	// validate parameters
	t, err := sdf.ThreadLookup(k.Thread)
	if err != nil {
		return nil, err
	}
	if k.TotalLength < 0 {
		return nil, sdf.ErrMsg("TotalLength < 0")
	}
	if k.ShankLength < 0 {
		return nil, sdf.ErrMsg("ShankLength < 0")
	}
	if k.Tolerance < 0 {
		return nil, sdf.ErrMsg("Tolerance < 0")
	}

	// head
	var head sdf.SDF3
	hr := t.HexRadius()
	hh := t.HexHeight()
	switch k.Style {
	case "hex":
		head, err = HexHead3D(hr, hh, "b")
	case "knurl":
		head, err = KnurledHead3D(hr, hh, hr*0.25)
	default:
		return nil, sdf.ErrMsg(fmt.Sprintf("unknown style \"%s\"", k.Style))
	}
	if err != nil {
		return nil, err
	}

	// shank
	shankLength := k.ShankLength + hh/2
	shankOffset := shankLength / 2
	shank, err := sdf.Cylinder3D(shankLength, t.Radius, hh*0.08)
	if err != nil {
		return nil, err
	}
	shank = sdf.Transform3D(shank, sdf.Translate3d(v3.Vec{0, 0, shankOffset}))

	// external thread
	threadLength := k.TotalLength - k.ShankLength
	if threadLength < 0 {
		threadLength = 0
	}
	var thread sdf.SDF3
	if threadLength != 0 {
		r := t.Radius - k.Tolerance
		threadOffset := threadLength/2 + shankLength
		isoThread, err := sdf.ISOThread(r, t.Pitch, true)
		if err != nil {
			return nil, err
		}
		thread, err = sdf.Screw3D(isoThread, threadLength, t.Taper, t.Pitch, 1)
		if err != nil {
			return nil, err
		}
		// chamfer the thread
		thread, err = ChamferedCylinder(thread, 0, 0.5)
		if err != nil {
			return nil, err
		}
		thread = sdf.Transform3D(thread, sdf.Translate3d(v3.Vec{0, 0, threadOffset}))
	}

	return sdf.Union3D(head, shank, thread), nil
}

//-----------------------------------------------------------------------------
