//-----------------------------------------------------------------------------
/*

Simple Washer.

The washer can be partial and used to create circular wall segments.

*/
//-----------------------------------------------------------------------------

package obj

import (
	"github.com/deadsy/sdfx/sdf"
	v2 "github.com/deadsy/sdfx/vec/v2"
)

//-----------------------------------------------------------------------------

// WasherParms defines the parameters for a washer.
type WasherParms struct {
	Thickness   float64 // thickness (3d only)
	InnerRadius float64 // inner radius
	OuterRadius float64 // outer radius
	Remove      float64 // fraction of complete washer removed
}

//-----------------------------------------------------------------------------

// Washer2D returns a 2d washer.
func Washer2D(k *WasherParms) (sdf.SDF2, error) {
	if k.InnerRadius >= k.OuterRadius {
		return nil, sdf.ErrMsg("InnerRadius >= OuterRadius")
	}
	if k.Remove != 0 {
		return nil, sdf.ErrMsg("TODO support Remove != 0")
	}
	outer, err := sdf.Circle2D(k.OuterRadius)
	if err != nil {
		return nil, err
	}
	inner, err := sdf.Circle2D(k.InnerRadius)
	if err != nil {
		return nil, err
	}
	return sdf.Difference2D(outer, inner), nil
}

//-----------------------------------------------------------------------------

// Washer3D returns a 3d washer.
// This can also be used to create circular walls.
func Washer3D(k *WasherParms) (sdf.SDF3, error) {
	if k.Thickness <= 0 {
		return nil, sdf.ErrMsg("Thickness <= 0")
	}
	if k.InnerRadius >= k.OuterRadius {
		return nil, sdf.ErrMsg("InnerRadius >= OuterRadius")
	}
	if k.Remove < 0 || k.Remove >= 1.0 {
		return nil, sdf.ErrMsg("Remove must be [0..1)")
	}

	if k.Remove == 0 {
		// difference of cylinders
		outer, err := sdf.Cylinder3D(k.Thickness, k.OuterRadius, 0)
		if err != nil {
			return nil, err
		}
		inner, err := sdf.Cylinder3D(k.Thickness, k.InnerRadius, 0)
		if err != nil {
			return nil, err
		}
		return sdf.Difference3D(outer, inner), nil
	}

	// build a 2d profile box
	dx := k.OuterRadius - k.InnerRadius
	dy := k.Thickness
	xofs := 0.5 * (k.InnerRadius + k.OuterRadius)
	b := sdf.Box2D(v2.Vec{dx, dy}, 0)
	b = sdf.Transform2D(b, sdf.Translate2d(v2.Vec{xofs, 0}))
	// rotate about the z-axis
	theta := sdf.Tau * (1.0 - k.Remove)
	s, err := sdf.RevolveTheta3D(b, theta)
	if err != nil {
		return nil, err
	}
	// center the removed portion on the x-axis
	dtheta := 0.5 * (sdf.Tau - theta)
	return sdf.Transform3D(s, sdf.RotateZ(dtheta)), nil
}

//-----------------------------------------------------------------------------
