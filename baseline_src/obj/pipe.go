//-----------------------------------------------------------------------------
/*

Standard Pipes

*/
//-----------------------------------------------------------------------------

package obj

import (
	"fmt"
	"log"
	"math"

	"github.com/deadsy/sdfx/sdf"
	v3 "github.com/deadsy/sdfx/vec/v3"
)

//-----------------------------------------------------------------------------

// PipeParameters stores the parameters that define pipe.
type PipeParameters struct {
	Name  string  // name
	Outer float64 // outer radius
	Inner float64 // inner radius
	Units string  // "inch" or "mm"
}

type pipeDatabase map[string]*PipeParameters

var pipeDB = initPipeLookup()

func (m pipeDatabase) Sch40Add(name string, outer, inner float64) {
	if inner >= outer {
		log.Panicf("inner >= outer for \"sch40:%s\"", name)
	}
	name = "sch40:" + name
	k := PipeParameters{
		Name:  name,
		Outer: outer * 0.5,
		Inner: inner * 0.5,
		Units: "inch",
	}
	m[name] = &k
}

// initPipeLookup adds a collection of standard pipes to the pipe database.
func initPipeLookup() pipeDatabase {
	m := make(pipeDatabase)

	// schedule 40 PVC
	m.Sch40Add("1/8", 0.405, 0.249)
	m.Sch40Add("1/4", 0.540, 0.344)
	m.Sch40Add("3/8", 0.675, 0.473)
	m.Sch40Add("1/2", 0.840, 0.602)
	m.Sch40Add("3/4", 1.050, 0.804)
	m.Sch40Add("1", 1.315, 1.029)
	m.Sch40Add("1-1/4", 1.660, 1.360)
	m.Sch40Add("1-1/2", 1.900, 1.590)
	m.Sch40Add("2", 2.375, 2.047)
	m.Sch40Add("2-1/2", 2.875, 2.445)
	m.Sch40Add("3", 3.500, 3.042)
	m.Sch40Add("3-1/2", 4.000, 3.521)
	m.Sch40Add("4", 4.500, 3.998)
	m.Sch40Add("5", 5.563, 5.016)
	m.Sch40Add("6", 6.625, 6.031)
	m.Sch40Add("8", 8.625, 7.942)
	m.Sch40Add("10", 10.750, 9.976)
	m.Sch40Add("12", 12.750, 11.889)
	m.Sch40Add("14", 14.000, 13.073)
	m.Sch40Add("16", 16.000, 14.940)
	m.Sch40Add("18", 18.000, 16.809)
	m.Sch40Add("20", 20.000, 18.743)
	m.Sch40Add("24", 24.000, 22.544)

	return m
}

// PipeLookup returns the parameters for a named pipe.
func PipeLookup(name, units string) (*PipeParameters, error) {
	if units != "mm" && units != "inch" {
		return nil, sdf.ErrMsg("units must be mm/inch")
	}

	k, ok := pipeDB[name]
	if !ok {
		return nil, fmt.Errorf("pipe \"%s\" not found", name)
	}
	// handle scale conversion
	scale := 1.0
	if units != k.Units {
		if units == "mm" && k.Units == "inch" {
			scale = sdf.MillimetresPerInch
		}
		if units == "inch" && k.Units == "mm" {
			scale = 1.0 / sdf.MillimetresPerInch
		}
	}
	k0 := PipeParameters{
		Outer: k.Outer * scale,
		Inner: k.Inner * scale,
		Units: units,
	}
	return &k0, nil
}

//-----------------------------------------------------------------------------

// Pipe3D returns a length of pipe.
func Pipe3D(oRadius, iRadius, length float64) (sdf.SDF3, error) {
	if oRadius <= 0 {
		return nil, sdf.ErrMsg("oRadius <= 0")
	}
	if iRadius <= 0 {
		return nil, sdf.ErrMsg("iRadius <= 0")
	}
	if oRadius <= iRadius {
		return nil, sdf.ErrMsg("oRadius <= iRadius")
	}
	if length < 0 {
		return nil, sdf.ErrMsg("length < 0")
	}
	if length == 0 {
		return nil, nil
	}
	outer, err := sdf.Cylinder3D(length, oRadius, 0)
	if err != nil {
		return nil, err
	}
	inner, err := sdf.Cylinder3D(length, iRadius, 0)
	if err != nil {
		return nil, err
	}
	return sdf.Difference3D(outer, inner), nil
}

//-----------------------------------------------------------------------------

// StdPipe3D returns a length of the named standard pipe.
func StdPipe3D(name, units string, length float64) (sdf.SDF3, error) {
	k, err := PipeLookup(name, units)
	if err != nil {
		return nil, err
	}
	return Pipe3D(k.Outer, k.Inner, length)
}

//-----------------------------------------------------------------------------

func connectorArm(radius, length float64) (sdf.SDF3, error) {
	if radius <= 0 {
		return nil, sdf.ErrMsg("radius <= 0")
	}
	if length < radius {
		return nil, sdf.ErrMsg("length < radius")
	}
	s, err := sdf.Cylinder3D(length+(2*radius), radius, radius)
	if err != nil {
		return nil, err
	}
	s = sdf.Cut3D(s, v3.Vec{0, 0, 0.5 * length}, v3.Vec{0, 0, -1})
	return sdf.Transform3D(s, sdf.Translate3d(v3.Vec{0, 0, length * 0.5})), nil
}

func pipeConnector1(radius, length float64, cfg [6]bool) (sdf.SDF3, error) {
	var dirn []v3.Vec
	if cfg[0] {
		dirn = append(dirn, v3.Vec{1, 0, 0})
	}
	if cfg[1] {
		dirn = append(dirn, v3.Vec{-1, 0, 0})
	}
	if cfg[2] {
		dirn = append(dirn, v3.Vec{0, 1, 0})
	}
	if cfg[3] {
		dirn = append(dirn, v3.Vec{0, -1, 0})
	}
	if cfg[4] {
		dirn = append(dirn, v3.Vec{0, 0, 1})
	}
	if cfg[5] {
		dirn = append(dirn, v3.Vec{0, 0, -1})
	}
	if len(dirn) < 1 {
		return nil, sdf.ErrMsg("no connectors")
	}
	s, err := connectorArm(radius, length)
	if err != nil {
		return nil, err
	}
	return sdf.Orient3D(s, v3.Vec{0, 0, 1}, dirn), nil
}

func pipeConnector2(outer, inner, length float64, cfg [6]bool) (sdf.SDF3, error) {
	// outer
	s, err := pipeConnector1(outer, length, cfg)
	if err != nil {
		return nil, err
	}
	// inner
	if inner > 0 {
		inner, err := pipeConnector1(inner, length, cfg)
		if err != nil {
			return nil, err
		}
		s = sdf.Difference3D(s, inner)
	}
	return s, nil
}

// PipeConnectorParms defines an n-way female pipe connector.
type PipeConnectorParms struct {
	Length        float64 // length of connector arm to center
	OuterRadius   float64 // outer radius of connector arm
	InnerRadius   float64 // inner radius of connector arm
	RecessDepth   float64 // depth for recessed stop
	RecessWidth   float64 // width of internal recess step
	Configuration [6]bool // position of arms. +x,-x,+y,-y,+z,-z
}

// PipeConnector3D returns an n-way female pipe connector.
func PipeConnector3D(k *PipeConnectorParms) (sdf.SDF3, error) {

	if k.Length <= 0 {
		return nil, sdf.ErrMsg("k.Length <= 0")
	}
	if k.OuterRadius <= 0 {
		return nil, sdf.ErrMsg("k.OuterRadius <= 0")
	}
	if k.InnerRadius < 0 {
		return nil, sdf.ErrMsg("k.InnerRadius < 0")
	}
	if k.RecessDepth < 0 {
		return nil, sdf.ErrMsg("k.RecessDepth < 0")
	}
	if k.RecessWidth < 0 {
		return nil, sdf.ErrMsg("k.RecessWidth < 0")
	}
	if k.InnerRadius >= k.OuterRadius {
		return nil, sdf.ErrMsg("k.InnerRadius >= k.OuterRadius")
	}
	if k.RecessDepth >= k.Length {
		return nil, sdf.ErrMsg("k.RecessDepth >= k.Length")
	}
	if k.RecessWidth >= k.InnerRadius {
		return nil, sdf.ErrMsg("k.RecessWidth >= k.InnerRadius")
	}

	// outer surface
	s, err := pipeConnector2(k.OuterRadius, k.InnerRadius, k.Length, k.Configuration)
	if err != nil {
		return nil, err
	}

	// recessed stop
	if k.RecessWidth > 0 {
		length := k.Length - k.RecessDepth
		inner := k.InnerRadius - k.RecessWidth
		recess, err := pipeConnector2(k.InnerRadius, inner, length, k.Configuration)
		if err != nil {
			return nil, err
		}
		s = sdf.Union3D(s, recess)
	}

	return s, nil
}

//-----------------------------------------------------------------------------

// StdPipeConnector3D returns an n-way female pipe connector for a standard pipe size.
func StdPipeConnector3D(name, units string, length float64, cfg [6]bool) (sdf.SDF3, error) {
	p, err := PipeLookup(name, units)
	if err != nil {
		return nil, err
	}
	wall := p.Outer - p.Inner
	k := PipeConnectorParms{
		Length:        length,
		OuterRadius:   p.Outer + wall,
		InnerRadius:   p.Outer,
		RecessDepth:   math.Min(2*p.Outer, length-p.Outer-(0.5*wall)),
		RecessWidth:   wall,
		Configuration: cfg,
	}
	return PipeConnector3D(&k)
}

//-----------------------------------------------------------------------------
