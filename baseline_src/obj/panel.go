//-----------------------------------------------------------------------------
/*

Create 2d/3d panels.

*/
//-----------------------------------------------------------------------------

package obj

import (
	"github.com/deadsy/sdfx/sdf"
	v2 "github.com/deadsy/sdfx/vec/v2"
	v3 "github.com/deadsy/sdfx/vec/v3"
)

//-----------------------------------------------------------------------------
/*

2D Panel with rounded corners and edge holes.

Note: The hole pattern is used to layout multiple holes along an edge.

Examples:

"x" - single hole on edge
"xx" - two holes on edge
"x.x" = two holes on edge with spacing
"xx.x.xx" = five holes on edge with spacing
etc.

*/

// PanelParms defines the parameters for a 2D panel.
type PanelParms struct {
	Size         v2.Vec     // size of the panel
	CornerRadius float64    // radius of rounded corners
	HoleDiameter float64    // diameter of panel holes
	HoleMargin   [4]float64 // hole margins for top, right, bottom, left
	HolePattern  [4]string  // hole pattern for top, right, bottom, left
	Thickness    float64    // panel thickness (3d only)
}

// Panel2D returns a 2d panel with holes on the edges.
func Panel2D(k *PanelParms) (sdf.SDF2, error) {
	// panel
	s0 := sdf.Box2D(k.Size, k.CornerRadius)
	if k.HoleDiameter <= 0.0 {
		// no holes
		return s0, nil
	}

	// corners
	tl := v2.Vec{-0.5*k.Size.X + k.HoleMargin[3], 0.5*k.Size.Y - k.HoleMargin[0]}
	tr := v2.Vec{0.5*k.Size.X - k.HoleMargin[1], 0.5*k.Size.Y - k.HoleMargin[0]}
	br := v2.Vec{0.5*k.Size.X - k.HoleMargin[1], -0.5*k.Size.Y + k.HoleMargin[2]}
	bl := v2.Vec{-0.5*k.Size.X + k.HoleMargin[3], -0.5*k.Size.Y + k.HoleMargin[2]}

	// holes
	hole, err := sdf.Circle2D(0.5 * k.HoleDiameter)
	if err != nil {
		return nil, err
	}
	var holes []sdf.SDF2
	// clockwise: top, right, bottom, left
	holes = append(holes, sdf.LineOf2D(hole, tl, tr, k.HolePattern[0]))
	holes = append(holes, sdf.LineOf2D(hole, tr, br, k.HolePattern[1]))
	holes = append(holes, sdf.LineOf2D(hole, br, bl, k.HolePattern[2]))
	holes = append(holes, sdf.LineOf2D(hole, bl, tl, k.HolePattern[3]))

	return sdf.Difference2D(s0, sdf.Union2D(holes...)), nil
}

// Panel3D returns a 3d panel with holes on the edges.
func Panel3D(k *PanelParms) (sdf.SDF3, error) {
	if k.Thickness <= 0 {
		return nil, sdf.ErrMsg("k.Thickness <= 0")
	}
	s, err := Panel2D(k)
	if err != nil {
		return nil, err
	}
	return sdf.Extrude3D(s, k.Thickness), nil
}

//-----------------------------------------------------------------------------
// EuroRack Module Panels: http://www.doepfer.de/a100_man/a100m_e.htm

const erU = 1.75 * sdf.MillimetresPerInch
const erHP = 0.2 * sdf.MillimetresPerInch
const erHoleDiameter = 3.2

// gaps between adjacent panels (doepfer 3U module spec)
const erUGap = ((3 * erU) - 128.5) * 0.5
const erHPGap = ((3 * erHP) - 15) * 0.5

// EuroRackParms defines the parameters for a eurorack panel.
type EuroRackParms struct {
	U            float64 // U-size (vertical)
	HP           float64 // HP-size (horizontal)
	CornerRadius float64 // radius of panel corners
	HoleDiameter float64 // panel holes (0 for default)
	Thickness    float64 // panel thickness (3d only)
	Ridge        bool    // add side ridges for reinforcing (3d only)
}

func erUSize(u float64) float64 {
	return (u * erU) - (2 * erUGap)
}

func erHPSize(hp float64) float64 {
	return (hp * erHP) - (2 * erHPGap)
}

// EuroRackPanel2D returns a 2d eurorack synthesizer module panel (in mm).
func EuroRackPanel2D(k *EuroRackParms) (sdf.SDF2, error) {

	if k.U < 1 {
		return nil, sdf.ErrMsg("k.U < 1")
	}
	if k.HP <= 1 {
		return nil, sdf.ErrMsg("k.HP <= 1")
	}
	if k.CornerRadius < 0 {
		return nil, sdf.ErrMsg("k.CornerRadius < 0")
	}
	if k.HoleDiameter <= 0 {
		k.HoleDiameter = erHoleDiameter
	}

	// edge to mount hole margins
	const vMargin = 3.0
	const hMargin = (3 * erHP * 0.5) - erHPGap

	x := erHPSize(k.HP)
	y := erUSize(k.U)

	pk := PanelParms{
		Size:         v2.Vec{x, y},
		CornerRadius: k.CornerRadius,
		HoleDiameter: k.HoleDiameter,
		HoleMargin:   [4]float64{vMargin, hMargin, vMargin, hMargin},
	}

	if k.HP < 8 {
		// two holes
		pk.HolePattern = [4]string{"x", "", "", "x"}
	} else {
		// four holes
		pk.HolePattern = [4]string{"x", "x", "x", "x"}
	}

	return Panel2D(&pk)
}

// EuroRackPanel3D returns a 3d eurorack synthesizer module panel (in mm).
func EuroRackPanel3D(k *EuroRackParms) (sdf.SDF3, error) {
	if k.Thickness <= 0 {
		return nil, sdf.ErrMsg("k.Thickness <= 0")
	}
	panel2d, err := EuroRackPanel2D(k)
	if err != nil {
		return nil, err
	}
	s := sdf.Extrude3D(panel2d, k.Thickness)
	if !k.Ridge {
		return s, nil
	}
	// create a reinforcing ridge
	xSize := k.Thickness
	ySize := erUSize(k.U) - 18.0
	zSize := k.Thickness * 1.5
	r, err := sdf.Box3D(v3.Vec{xSize, ySize, zSize}, 0)
	if err != nil {
		return nil, err
	}
	// add the ridges to the sides
	zOfs := 0.5 * (k.Thickness + zSize)
	xOfs := 0.5 * (erHPSize(k.HP) - xSize)
	r = sdf.Transform3D(r, sdf.Translate3d(v3.Vec{0, 0, zOfs}))
	r0 := sdf.Transform3D(r, sdf.Translate3d(v3.Vec{xOfs, 0, 0}))
	r1 := sdf.Transform3D(r, sdf.Translate3d(v3.Vec{-xOfs, 0, 0}))

	return sdf.Union3D(s, r0, r1), nil
}

//-----------------------------------------------------------------------------

// PanelHoleParms defines the parameters for a panel hole.
type PanelHoleParms struct {
	Diameter    float64 // hole diameter
	Thickness   float64 // panel thickness
	Indent      v3.Vec  // indent size
	Offset      float64 // indent offset from main axis
	Orientation float64 // orientation of indent, 0 == x-axis
}

// PanelHole3D returns a panel hole and an indent for a retention pin.
func PanelHole3D(k *PanelHoleParms) (sdf.SDF3, error) {

	if k.Diameter <= 0 {
		return nil, sdf.ErrMsg("k.Diameter <= 0")
	}
	if k.Thickness <= 0 {
		return nil, sdf.ErrMsg("k.Thickness <= 0")
	}
	if k.Indent.LTZero() {
		return nil, sdf.ErrMsg("k.Indent < 0")
	}
	if k.Offset < 0 {
		return nil, sdf.ErrMsg("k.Offset")
	}

	// build the hole
	s, err := sdf.Cylinder3D(k.Thickness, k.Diameter*0.5, 0)
	if err != nil {
		return nil, err
	}

	if k.Offset == 0 || k.Indent.X == 0 || k.Indent.Y == 0 || k.Indent.Z == 0 {
		return s, nil
	}

	// build the indent
	indent, err := sdf.Box3D(k.Indent, 0)
	zOfs := (k.Thickness - k.Indent.Z) * 0.5
	indent = sdf.Transform3D(indent, sdf.Translate3d(v3.Vec{k.Offset, 0, zOfs}))

	s = sdf.Union3D(s, indent)
	if k.Orientation != 0 {
		s = sdf.Transform3D(s, sdf.RotateZ(k.Orientation))
	}

	return s, nil
}

//-----------------------------------------------------------------------------
