//-----------------------------------------------------------------------------
/*

Nuts: Simple Nut for 3d printing.

*/
//-----------------------------------------------------------------------------

package obj

import (
	"fmt"

	"github.com/deadsy/sdfx/sdf"
)

//-----------------------------------------------------------------------------

type ThreadedCylinderParms struct {
	Height    float64 // height of cylinder
	Diameter  float64 // diameter of cylinder
	Thread    string  // name of thread
	Tolerance float64 // add to internal thread radius
}

// Object returns a cylinder with an internal thread.
func (k *ThreadedCylinderParms) Object() (sdf.SDF3, error) {
	// validate parameters
	t, err := sdf.ThreadLookup(k.Thread)
	if err != nil {
		return nil, err
	}
	if k.Diameter < 0 {
		return nil, sdf.ErrMsg("Diameter < 0")
	}
	if k.Height < 0 {
		return nil, sdf.ErrMsg("Height < 0")
	}
	if k.Tolerance < 0 {
		return nil, sdf.ErrMsg("Tolerance < 0")
	}
	body, err := sdf.Cylinder3D(k.Height, 0.5*k.Diameter, 0)
	if err != nil {
		return nil, err
	}
	// internal thread
	t = t.ToMillimetre()
	isoThread, err := sdf.ISOThread(t.Radius+k.Tolerance, t.Pitch, false)
	if err != nil {
		return nil, err
	}
	thread, err := sdf.Screw3D(isoThread, k.Height, t.Taper, t.Pitch, 1)
	if err != nil {
		return nil, err
	}
	return sdf.Difference3D(body, thread), nil
}

//-----------------------------------------------------------------------------

// NutParms defines the parameters for a nut.
type NutParms struct {
	Thread    string  // name of thread
	Style     string  // head style "hex" or "knurl"
	Tolerance float64 // add to internal thread radius
}

// Nut returns a simple nut suitable for 3d printing.
func Nut(k *NutParms) (sdf.SDF3, error) {
	// validate parameters
	t, err := sdf.ThreadLookup(k.Thread)
	if err != nil {
		return nil, err
	}
	if k.Tolerance < 0 {
		return nil, sdf.ErrMsg("Tolerance < 0")
	}

	// nut body
	var nut sdf.SDF3
	nr := t.HexRadius()
	nh := t.HexHeight()
	switch k.Style {
	case "hex":
		nut, err = HexHead3D(nr, nh, "tb")
	case "knurl":
		nut, err = KnurledHead3D(nr, nh, nr*0.25)
	default:
		return nil, sdf.ErrMsg(fmt.Sprintf("unknown style \"%s\"", k.Style))
	}
	if err != nil {
		return nil, err
	}

	// internal thread
	isoThread, err := sdf.ISOThread(t.Radius+k.Tolerance, t.Pitch, false)
	if err != nil {
		return nil, err
	}
	thread, err := sdf.Screw3D(isoThread, nh, t.Taper, t.Pitch, 1)
	if err != nil {
		return nil, err
	}

	return sdf.Difference3D(nut, thread), nil
}

//-----------------------------------------------------------------------------
