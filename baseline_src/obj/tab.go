//-----------------------------------------------------------------------------
/*

Tabs for Connecting Objects.

Tab objects are used to align and connect upper and lower objects.
Generally the upper/lower boundary is the XY plane.

*/
//-----------------------------------------------------------------------------

package obj

import (
	"github.com/deadsy/sdfx/sdf"
	v3 "github.com/deadsy/sdfx/vec/v3"
)

//-----------------------------------------------------------------------------

// Tab is the interface to a tab object.
type Tab interface {
	Body(upper bool, m sdf.M44) sdf.SDF3     // + to connected body
	Envelope(upper bool, m sdf.M44) sdf.SDF3 // - from connected body
}

// AddTabs to an upper or lower object.
func AddTabs(s sdf.SDF3, tab Tab, upper bool, mset []sdf.M44) sdf.SDF3 {
	bSet := make([]sdf.SDF3, len(mset))
	eSet := make([]sdf.SDF3, len(mset))
	for i := range mset {
		bSet[i] = tab.Body(upper, mset[i])
		eSet[i] = tab.Envelope(upper, mset[i])
	}
	body := sdf.Union3D(bSet...)
	envelope := sdf.Union3D(eSet...)
	return sdf.Union3D(sdf.Difference3D(s, envelope), body)
}

//-----------------------------------------------------------------------------
// simple straight tabs

// StraightTab contains the straight tab parameters.
type StraightTab struct {
	size      v3.Vec  // size of tab
	clearance float64 // clearance between male and female elements
}

// NewStraightTab returns a new straight tab object.
func NewStraightTab(size v3.Vec, clearance float64) (Tab, error) {
	return &StraightTab{
		size:      size,
		clearance: clearance,
	}, nil
}

// Body returns the upper/lower body of a straight tab.
func (t *StraightTab) Body(upper bool, m sdf.M44) sdf.SDF3 {
	if upper {
		return nil
	}
	s, _ := sdf.Box3D(t.size, 0)
	return sdf.Transform3D(s, m.Mul(sdf.Translate3d(v3.Vec{0, 0, 0.5 * t.size.Z})))
}

// Envelope returns the upper/lower envelope of a straight tab.
func (t *StraightTab) Envelope(upper bool, m sdf.M44) sdf.SDF3 {
	if upper {
		size := t.size.Add(v3.Vec{2.0 * t.clearance, 2.0 * t.clearance, t.clearance})
		s, _ := sdf.Box3D(size, 0)
		return sdf.Transform3D(s, m.Mul(sdf.Translate3d(v3.Vec{0, 0, 0.5 * size.Z})))
	}
	return nil
}

//-----------------------------------------------------------------------------
// 45 degreee angled tabs

// AngleTab contains the angle tab parameters.
type AngleTab struct {
	size      v3.Vec  // size of tab
	clearance float64 // clearance between male and female elements
}

// NewAngleTab returns a new angle tab object.
func NewAngleTab(size v3.Vec, clearance float64) (Tab, error) {
	return &AngleTab{
		size:      size,
		clearance: clearance,
	}, nil
}

// Body returns the upper/lower body of an angle tab.
func (t *AngleTab) Body(upper bool, m sdf.M44) sdf.SDF3 {
	if upper {
		return nil
	}
	size := t.size
	s, _ := sdf.Box3D(size, 0)
	xCut := size.X*0.5 - size.Z*0.5
	s = sdf.Cut3D(s, v3.Vec{xCut, 0, 0}, v3.Vec{-1, 0, 1})
	s = sdf.Cut3D(s, v3.Vec{-xCut, 0, 0}, v3.Vec{1, 0, -1})
	return sdf.Transform3D(s, m.Mul(sdf.Translate3d(v3.Vec{0, 0, 0.5 * size.Z})))
}

// Envelope returns the upper/lower envelope of an angle tab.
func (t *AngleTab) Envelope(upper bool, m sdf.M44) sdf.SDF3 {
	if upper {
		size := t.size.Add(v3.Vec{2.0 * t.clearance, 2.0 * t.clearance, t.clearance})
		s, _ := sdf.Box3D(size, 0)
		xCut := size.X*0.5 - size.Z*0.5
		s = sdf.Cut3D(s, v3.Vec{xCut, 0, 0}, v3.Vec{-1, 0, 1})
		s = sdf.Cut3D(s, v3.Vec{-xCut, 0, 0}, v3.Vec{1, 0, -1})
		return sdf.Transform3D(s, m.Mul(sdf.Translate3d(v3.Vec{0, 0, 0.5 * size.Z})))
	}
	return nil
}

//-----------------------------------------------------------------------------
// screw pillar tab

// ScrewTab contains the screw tab parameters.
type ScrewTab struct {
	Length     float64 // length of pillar
	Radius     float64 // radius of pillar
	Round      bool    // round the bottom of the pillar
	HoleUpper  float64 // length of upper hole
	HoleLower  float64 // length of lower hole
	HoleRadius float64 // radius of hole
}

func (t *ScrewTab) screwBody() sdf.SDF3 {
	var round float64
	if t.Round {
		round = t.Radius
	}
	s, _ := sdf.Cylinder3D(2.0*t.Length, t.Radius, round)
	return sdf.Cut3D(s, v3.Vec{0, 0, 0}, v3.Vec{0, 0, -1})
}

func (t *ScrewTab) screwHole() sdf.SDF3 {
	l := t.HoleUpper + t.HoleLower
	zOfs := t.HoleUpper - (0.5 * l)
	s, _ := sdf.Cylinder3D(l, t.HoleRadius, 0)
	return sdf.Transform3D(s, sdf.Translate3d(v3.Vec{0, 0, zOfs}))
}

// NewScrewTab returns a new screw tab object.
func NewScrewTab(k *ScrewTab) (Tab, error) {
	return k, nil
}

// Body returns the upper/lower body of an angle tab.
func (t *ScrewTab) Body(upper bool, m sdf.M44) sdf.SDF3 {
	if upper {
		return nil
	}
	return sdf.Transform3D(sdf.Difference3D(t.screwBody(), t.screwHole()), m)
}

// Envelope returns the upper/lower envelope of an angle tab.
func (t *ScrewTab) Envelope(upper bool, m sdf.M44) sdf.SDF3 {
	if upper {
		return sdf.Transform3D(t.screwHole(), m)
	}
	return sdf.Transform3D(t.screwBody(), m)
}

//-----------------------------------------------------------------------------
