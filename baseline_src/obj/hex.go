//-----------------------------------------------------------------------------
/*

Hex Heads for nuts and bolts.

*/
//-----------------------------------------------------------------------------

package obj

import (
	"math"

	"github.com/deadsy/sdfx/sdf"
	v3 "github.com/deadsy/sdfx/vec/v3"
)

//-----------------------------------------------------------------------------

// Hex2D returns a 2d hexagon with rounded corners.
func Hex2D(radius, round float64) (sdf.SDF2, error) {
	delta := 2 * round / math.Sqrt(3)
	hex, err := sdf.Polygon2D(sdf.Nagon(6, radius-delta))
	if err != nil {
		return nil, err
	}
	return sdf.Offset2D(hex, round), nil
}

// Hex3D returns a 3d hexagon with rounded corners.
func Hex3D(radius, height, round float64) (sdf.SDF3, error) {
	hex, err := Hex2D(radius, round)
	if err != nil {
		return nil, err
	}
	return sdf.Extrude3D(hex, height), nil
}

//-----------------------------------------------------------------------------

// HexHead3D returns the rounded hex head for a nut or bolt.
func HexHead3D(
	radius float64, // radius of hex head
	height float64, // height of hex head
	round string, // rounding control (t)top, (b)bottom, (tb)top/bottom
) (sdf.SDF3, error) {
	// basic hex body
	hex3d, err := Hex3D(radius, height, radius*0.08)
	if err != nil {
		return nil, err
	}
	// round out the top and/or bottom as required
	if round != "" {
		topRound := radius * 1.6
		d := radius * math.Cos(sdf.DtoR(30))
		sphere3d, err := sdf.Sphere3D(topRound)
		if err != nil {
			return nil, err
		}
		zOfs := math.Sqrt(topRound*topRound-d*d) - height/2
		if round == "t" || round == "tb" {
			hex3d = sdf.Intersect3D(hex3d, sdf.Transform3D(sphere3d, sdf.Translate3d(v3.Vec{0, 0, -zOfs})))
		}
		if round == "b" || round == "tb" {
			hex3d = sdf.Intersect3D(hex3d, sdf.Transform3D(sphere3d, sdf.Translate3d(v3.Vec{0, 0, zOfs})))
		}
	}
	return hex3d, nil
}

//-----------------------------------------------------------------------------
