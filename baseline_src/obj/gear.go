//-----------------------------------------------------------------------------
/*

Involute Gears

*/
//-----------------------------------------------------------------------------

package obj

import (
	"math"

	"github.com/deadsy/sdfx/sdf"
	v2 "github.com/deadsy/sdfx/vec/v2"
)

//-----------------------------------------------------------------------------

// return the involute coordinate for a given angle
func involuteXY(
	r float64, // base radius
	theta float64, // involute angle
) v2.Vec {
	c := math.Cos(theta)
	s := math.Sin(theta)
	return v2.Vec{
		r * (c + theta*s),
		r * (s - theta*c),
	}
}

// return the involute angle for a given radial distance
func involuteTheta(
	r float64, // base radius
	d float64, // involute radial distance
) float64 {
	x := d / r
	return math.Sqrt(x*x - 1)
}

//-----------------------------------------------------------------------------

// involuteGearTooth returns a 2D profile for a single involute tooth.
func involuteGearTooth(
	numberTeeth int, // number of gear teeth
	gearModule float64, // pitch circle diameter / number of gear teeth
	rootRadius float64, // radius at tooth root
	baseRadius float64, // radius at the base of the involute
	outerRadius float64, // radius at the outside of the tooth
	backlash float64, // backlash expressed as units of pitch circumference
	facets int, // number of facets for involute flank
) (sdf.SDF2, error) {

	pitchRadius := float64(numberTeeth) * gearModule / 2.0

	// work out the angular extent of the tooth on the base radius
	pitchPoint := involuteXY(baseRadius, involuteTheta(baseRadius, pitchRadius))
	faceAngle := math.Atan2(pitchPoint.Y, pitchPoint.X)
	backlashAngle := backlash / (2.0 * pitchRadius)
	centerAngle := sdf.Pi/(2.0*float64(numberTeeth)) + faceAngle - backlashAngle

	// work out the angles over which the involute will be used
	startAngle := involuteTheta(baseRadius, math.Max(baseRadius, rootRadius))
	stopAngle := involuteTheta(baseRadius, outerRadius)
	dtheta := (stopAngle - startAngle) / float64(facets)

	v := make([]v2.Vec, 2*(facets+1)+1)

	// lower tooth face
	m := sdf.Rotate(-centerAngle)
	angle := startAngle
	for i := 0; i <= facets; i++ {
		v[i] = m.MulPosition(involuteXY(baseRadius, angle))
		angle += dtheta
	}

	// upper tooth face (mirror the lower point)
	for i := 0; i <= facets; i++ {
		p := v[facets-i]
		v[facets+1+i] = v2.Vec{p.X, -p.Y}
	}

	// add the origin to make the polygon a tooth wedge
	v[2*(facets+1)] = v2.Vec{0, 0}

	return sdf.Polygon2D(v)
}

//-----------------------------------------------------------------------------

// InvoluteGearParms defines the parameters for an involute gear.
type InvoluteGearParms struct {
	NumberTeeth   int     // number of gear teeth
	Module        float64 // pitch circle diameter / number of gear teeth
	PressureAngle float64 // gear pressure angle (radians)
	Backlash      float64 // backlash expressed as per-tooth distance at pitch circumference
	Clearance     float64 // additional root clearance
	RingWidth     float64 // width of ring wall (from root circle)
	Facets        int     // number of facets for involute flank
}

// InvoluteGear returns an 2D polygon for an involute gear.
func InvoluteGear(k *InvoluteGearParms) (sdf.SDF2, error) {

	if k.NumberTeeth <= 0 {
		return nil, sdf.ErrMsg("NumberTeeth <= 0")
	}
	if k.Module <= 0 {
		return nil, sdf.ErrMsg("Module <= 0")
	}
	if k.PressureAngle <= 0 {
		return nil, sdf.ErrMsg("PressureAngle <= 0")
	}
	if k.Backlash < 0 {
		return nil, sdf.ErrMsg("Backlash <= 0")
	}
	if k.Clearance < 0 {
		return nil, sdf.ErrMsg("Clearance < 0")
	}
	if k.RingWidth < 0 {
		return nil, sdf.ErrMsg("RingWidth < 0")
	}
	if k.Facets <= 0 {
		return nil, sdf.ErrMsg("Facets <= 0")
	}

	// pitch radius
	pitchRadius := float64(k.NumberTeeth) * k.Module * 0.5

	// base circle radius
	baseRadius := pitchRadius * math.Cos(k.PressureAngle)

	// addendum: radial distance from pitch circle to outside circle
	addendum := k.Module * 1.0
	// dedendum: radial distance from pitch circle to root circle
	dedendum := addendum + k.Clearance

	outerRadius := pitchRadius + addendum
	rootRadius := pitchRadius - dedendum

	tooth, err := involuteGearTooth(
		k.NumberTeeth,
		k.Module,
		rootRadius,
		baseRadius,
		outerRadius,
		k.Backlash,
		k.Facets,
	)
	if err != nil {
		return nil, err
	}

	gear := sdf.RotateCopy2D(tooth, k.NumberTeeth)

	root, err := sdf.Circle2D(rootRadius)
	if err != nil {
		return nil, err
	}

	// ring
	ringRadius := 0.0
	if k.RingWidth > 0 {
		ringRadius = rootRadius - k.RingWidth
	}
	ring, err := sdf.Circle2D(ringRadius)
	if err != nil {
		return nil, err
	}

	return sdf.Difference2D(sdf.Union2D(gear, root), ring), nil
}

//-----------------------------------------------------------------------------
