//-----------------------------------------------------------------------------
/*

Keyways in Shafts

*/
//-----------------------------------------------------------------------------

package obj

import (
	"github.com/deadsy/sdfx/sdf"
	v2 "github.com/deadsy/sdfx/vec/v2"
)

//-----------------------------------------------------------------------------

// KeywayParameters defines the parameters for a keyway and shaft.
type KeywayParameters struct {
	ShaftRadius float64 // shaft radius
	KeyRadius   float64 // shaft center to bottom/top of key
	KeyWidth    float64 // key width
	ShaftLength float64 // shaft length (3d only)
}

// Keyway2D returns the 2d profile of a shaft and keyway.
func Keyway2D(k *KeywayParameters) (sdf.SDF2, error) {
	if k.ShaftRadius <= 0 {
		return nil, sdf.ErrMsg("k.ShaftRadius <= 0")
	}
	if k.KeyRadius < 0 {
		return nil, sdf.ErrMsg("k.KeyRadius < 0")
	}
	if k.KeyWidth < 0 {
		return nil, sdf.ErrMsg("k.KeyWidth < 0")
	}
	shaft, err := sdf.Circle2D(k.ShaftRadius)
	if err != nil {
		return nil, err
	}
	var s sdf.SDF2
	if k.KeyRadius < k.ShaftRadius {
		// The key is cut into the shaft (shaft profile)
		l := k.ShaftRadius - k.KeyRadius
		key := sdf.Box2D(v2.Vec{l, k.KeyWidth}, 0)
		key = sdf.Transform2D(key, sdf.Translate2d(v2.Vec{k.ShaftRadius - l*0.5, 0}))
		s = sdf.Difference2D(shaft, key)
	} else {
		// The key is proud of the shaft (bore profile)
		key := sdf.Box2D(v2.Vec{k.KeyRadius, k.KeyWidth}, 0)
		key = sdf.Transform2D(key, sdf.Translate2d(v2.Vec{k.KeyRadius * 0.5, 0}))
		s = sdf.Union2D(shaft, key)
	}
	return s, nil
}

// Keyway3D returns a shaft and keyway.
func Keyway3D(k *KeywayParameters) (sdf.SDF3, error) {
	if k.ShaftLength <= 0 {
		return nil, sdf.ErrMsg("k.ShaftLength <= 0")
	}
	s, err := Keyway2D(k)
	if err != nil {
		return nil, err
	}
	return sdf.Extrude3D(s, k.ShaftLength), nil
}

//-----------------------------------------------------------------------------
