//-----------------------------------------------------------------------------
/*

Springs

3d printable plastic springs.

*/
//-----------------------------------------------------------------------------

package obj

import (
	"github.com/deadsy/sdfx/sdf"
	v2 "github.com/deadsy/sdfx/vec/v2"
)

//-----------------------------------------------------------------------------

// SpringParms defines a 3d printable spring.
type SpringParms struct {
	Width         float64    // width of spring
	Height        float64    // height of spring (3d only)
	WallThickness float64    // thickness of wall
	Diameter      float64    // diameter of spring turn
	NumSections   int        // number of spring sections
	Boss          [2]float64 // boss sizes
}

// springLength returns the total spring length.
func (k *SpringParms) SpringLength() float64 {
	length := k.Boss[0] + k.Boss[1]
	length += k.WallThickness * (float64(k.NumSections) - 1)
	length += (k.Diameter - 2.0*k.WallThickness) * float64(k.NumSections)
	return length
}

// Spring2D returns a 2d spring.
func (k *SpringParms) Spring2D() (sdf.SDF2, error) {

	outerRadius := 0.5 * k.Diameter
	innerRadius := outerRadius - k.WallThickness
	spacing := 2.0 * innerRadius

	// check parameters
	if k.NumSections <= 0 {
		return nil, sdf.ErrMsg("NumSections <= 0")
	}
	if k.Width < 0 {
		return nil, sdf.ErrMsg("Width < 0")
	}
	if k.WallThickness < 0 {
		return nil, sdf.ErrMsg("WallThickness < 0")
	}
	if innerRadius <= 0 {
		return nil, sdf.ErrMsg("innerRadius <= 0")
	}
	if k.Boss[0] < k.WallThickness {
		k.Boss[0] = k.WallThickness
	}
	if k.Boss[1] < k.WallThickness {
		k.Boss[1] = k.WallThickness
	}

	// wall thickness
	var wt []float64
	wt = append(wt, k.Boss[0])
	for i := 0; i < k.NumSections-1; i++ {
		wt = append(wt, k.WallThickness)
	}
	wt = append(wt, k.Boss[1])

	// left/right spring loops
	loop, err := Washer2D(&WasherParms{InnerRadius: innerRadius, OuterRadius: outerRadius})
	if err != nil {
		return nil, err
	}
	rLoop := sdf.Cut2D(loop, v2.Vec{}, v2.Vec{-1, 0})
	lLoop := sdf.Cut2D(loop, v2.Vec{}, v2.Vec{1, 0})

	// build the spring
	var parts []sdf.SDF2
	posn := v2.Vec{-0.5 * k.SpringLength(), 0}
	for i, t := range wt {
		wall := sdf.Box2D(v2.Vec{t, k.Width + k.WallThickness}, 0.5*k.WallThickness)
		posn.X += 0.5 * t
		parts = append(parts, sdf.Transform2D(wall, sdf.Translate2d(posn)))
		if i != len(wt)-1 {
			xOfs := 0.5 * (t + spacing)
			yOfs := 0.5 * k.Width
			if i&1 == 0 {
				parts = append(parts, sdf.Transform2D(lLoop, sdf.Translate2d(posn.Add(v2.Vec{xOfs, -yOfs}))))
			} else {
				parts = append(parts, sdf.Transform2D(rLoop, sdf.Translate2d(posn.Add(v2.Vec{xOfs, yOfs}))))
			}
		}
		posn.X += 0.5*t + spacing
	}

	return sdf.Union2D(parts...), nil
}

// Spring3D returns a 3d spring.
func (k *SpringParms) Spring3D() (sdf.SDF3, error) {
	if k.Height <= 0 {
		return nil, sdf.ErrMsg("Height <= 0")
	}
	s, err := k.Spring2D()
	if err != nil {
		return nil, err
	}
	return sdf.Extrude3D(s, k.Height), nil
}

//-----------------------------------------------------------------------------
