//-----------------------------------------------------------------------------
/*

Knurled Cylinders

See: https://en.wikipedia.org/wiki/Knurling

This code builds a knurl with the intersection of left and right hand
multistart screw "threads".

*/
//-----------------------------------------------------------------------------

package obj

import (
	"math"

	"github.com/deadsy/sdfx/sdf"
)

//-----------------------------------------------------------------------------

// KnurlParms specifies the knurl parameters.
type KnurlParms struct {
	Length float64 // length of cylinder
	Radius float64 // radius of cylinder
	Pitch  float64 // knurl pitch
	Height float64 // knurl height
	Theta  float64 // knurl helix angle
}

// knurlProfile returns a 2D knurl profile.
func knurlProfile(k *KnurlParms) (sdf.SDF2, error) {
	knurl := sdf.NewPolygon()
	knurl.Add(k.Pitch/2, 0)
	knurl.Add(k.Pitch/2, k.Radius)
	knurl.Add(0, k.Radius+k.Height)
	knurl.Add(-k.Pitch/2, k.Radius)
	knurl.Add(-k.Pitch/2, 0)
	//knurl.Render("knurl.dxf")
	return sdf.Polygon2D(knurl.Vertices())
}

// Knurl3D returns a knurled cylinder.
func Knurl3D(k *KnurlParms) (sdf.SDF3, error) {
	if k.Length <= 0 {
		return nil, sdf.ErrMsg("Length <= 0")
	}
	if k.Radius <= 0 {
		return nil, sdf.ErrMsg("Radius <= 0")
	}
	if k.Pitch <= 0 {
		return nil, sdf.ErrMsg("Pitch <= 0")
	}
	if k.Height <= 0 {
		return nil, sdf.ErrMsg("Height <= 0")
	}
	if k.Theta < 0 {
		return nil, sdf.ErrMsg("Theta < 0")
	}
	if k.Theta >= sdf.DtoR(90) {
		return nil, sdf.ErrMsg("Theta >= 90")
	}
	// Work out the number of starts using the desired helix angle.
	n := int(sdf.Tau * k.Radius * math.Tan(k.Theta) / k.Pitch)
	// build the knurl profile.
	knurl2d, err := knurlProfile(k)
	if err != nil {
		return nil, err
	}
	// create the left/right hand spirals
	knurl0_3d, err := sdf.Screw3D(knurl2d, k.Length, 0, k.Pitch, n)
	if err != nil {
		return nil, err
	}
	knurl1_3d, err := sdf.Screw3D(knurl2d, k.Length, 0, k.Pitch, -n)
	if err != nil {
		return nil, err
	}
	return sdf.Intersect3D(knurl0_3d, knurl1_3d), nil
}

// KnurledHead3D returns a generic cylindrical knurled head.
func KnurledHead3D(
	r float64, // radius
	h float64, // height
	pitch float64, // knurl pitch
) (sdf.SDF3, error) {
	cylinderRound := r * 0.05
	knurlLength := pitch * math.Floor((h-cylinderRound)/pitch)
	k := KnurlParms{
		Length: knurlLength,
		Radius: r,
		Pitch:  pitch,
		Height: pitch * 0.3,
		Theta:  sdf.DtoR(45),
	}
	knurl, err := Knurl3D(&k)
	if err != nil {
		return nil, err
	}
	cylinder, err := sdf.Cylinder3D(h, r, cylinderRound)
	if err != nil {
		return nil, err
	}
	return sdf.Union3D(cylinder, knurl), nil
}

//-----------------------------------------------------------------------------
