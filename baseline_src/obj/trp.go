//-----------------------------------------------------------------------------
/*

Truncated Rectangular Pyramid

This a rectangular base pyramid that has rounded edges and has been truncated.

It's an attractive object in its own right, but it's particularly useful for
sand-casting patterns because the slope implements a pattern draft and the
rounded edges minimise sand crumbling.

*/
//-----------------------------------------------------------------------------

package obj

import (
	"math"

	"github.com/deadsy/sdfx/sdf"
	v3 "github.com/deadsy/sdfx/vec/v3"
)

//-----------------------------------------------------------------------------

// TruncRectPyramidParms defines the parameters for a truncated rectangular pyramid.
type TruncRectPyramidParms struct {
	Size        v3.Vec  // size of truncated pyramid
	BaseAngle   float64 // base angle of pyramid (radians)
	BaseRadius  float64 // base corner radius
	RoundRadius float64 // edge rounding radius
}

// TruncRectPyramid3D returns a truncated rectangular pyramid with rounded edges.
func TruncRectPyramid3D(k *TruncRectPyramidParms) (sdf.SDF3, error) {
	if k.Size.LTZero() {
		return nil, sdf.ErrMsg("Size < 0")
	}
	if k.BaseAngle <= 0 || k.BaseAngle > sdf.DtoR(90) {
		return nil, sdf.ErrMsg("BaseAngle must be (0,90] degrees")
	}
	if k.BaseRadius < 0 {
		return nil, sdf.ErrMsg("BaseRadius < 0")
	}
	if k.RoundRadius < 0 {
		return nil, sdf.ErrMsg("RoundRadius < 0")
	}
	h := k.Size.Z
	dr := h / math.Tan(k.BaseAngle)
	rb := k.BaseRadius + dr
	rt := math.Max(k.BaseRadius-dr, 0)
	round := math.Min(0.5*rt, k.RoundRadius)
	s, err := sdf.Cone3D(2.0*h, rb, rt, round)
	if err != nil {
		return nil, err
	}
	wx := math.Max(k.Size.X-2.0*k.BaseRadius, 0)
	wy := math.Max(k.Size.Y-2.0*k.BaseRadius, 0)
	s = sdf.Elongate3D(s, v3.Vec{wx, wy, 0})
	s = sdf.Cut3D(s, v3.Vec{0, 0, 0}, v3.Vec{0, 0, 1})
	return s, nil
}

//-----------------------------------------------------------------------------
