//-----------------------------------------------------------------------------
/*

Gridfinity Storage Parts

https://gridfinity.xyz/

*/
//-----------------------------------------------------------------------------

package obj

import (
	"github.com/deadsy/sdfx/sdf"
	v2 "github.com/deadsy/sdfx/vec/v2"
	"github.com/deadsy/sdfx/vec/v2i"
	v3 "github.com/deadsy/sdfx/vec/v3"
	"github.com/deadsy/sdfx/vec/v3i"
)

//-----------------------------------------------------------------------------

func gfShape(size v2.Vec, h0, h1, h2, h3, round float64) sdf.SDF3 {

	// upper (h0)
	k := TruncRectPyramidParms{
		Size:       v3.Vec{size.X, size.Y, h0},
		BaseAngle:  sdf.DtoR(45),
		BaseRadius: round,
	}
	upper, _ := TruncRectPyramid3D(&k)

	// middle (h1)
	size = size.SubScalar(2.0 * h0)
	round -= h0
	m2d := sdf.Box2D(size, round)
	middle := sdf.Extrude3D(m2d, h1)
	middle = sdf.Transform3D(middle, sdf.Translate3d(v3.Vec{0, 0, h0 + 0.5*h1}))

	// lower (h2)
	k = TruncRectPyramidParms{
		Size:       v3.Vec{size.X, size.Y, h2},
		BaseAngle:  sdf.DtoR(45),
		BaseRadius: round,
	}
	lower, _ := TruncRectPyramid3D(&k)
	lower = sdf.Transform3D(lower, sdf.Translate3d(v3.Vec{0, 0, h0 + h1}))

	// extension (h3)
	var ext sdf.SDF3
	if h3 > 0 {
		size = size.SubScalar(2.0 * h2)
		round -= h2
		ext2d := sdf.Box2D(size, round)
		ext = sdf.Extrude3D(ext2d, h3)
		ext = sdf.Transform3D(ext, sdf.Translate3d(v3.Vec{0, 0, h0 + h1 + h2 + 0.5*h3}))
	}

	return sdf.Transform3D(sdf.Union3D(upper, middle, lower, ext), sdf.RotateX(sdf.Pi))
}

func gfGrid(x, y int, zOfs float64) []v3.Vec {
	grid := make([]v3.Vec, x*y)
	xOfs := -0.5 * float64(x-1) * gfFemaleSize
	yOfs := -0.5 * float64(y-1) * gfFemaleSize
	idx := 0
	for i := 0; i < x; i++ {
		for j := 0; j < y; j++ {
			grid[idx] = v3.Vec{xOfs + float64(i)*gfFemaleSize, yOfs + float64(j)*gfFemaleSize, zOfs}
			idx++
		}
	}
	return grid
}

//-----------------------------------------------------------------------------

const gfHoleOffset = 4.8
const gfHoleMinor = 0.5 * 3.0
const gfHoleMajor = 0.5 * 6.5
const gfHoleHeight = 2.0

func gfHoles(r, h, zOfs float64) sdf.SDF3 {
	const ofs = 0.5*gfMaleSize - (gfMaleH0 + gfMaleH2 + gfHoleOffset)
	hole, _ := sdf.Cylinder3D(h, r, 0)
	posn := []v3.Vec{
		{ofs, ofs, zOfs},
		{-ofs, ofs, zOfs},
		{ofs, -ofs, zOfs},
		{-ofs, -ofs, zOfs},
	}
	return sdf.Multi3D(hole, posn)
}

func gfThruHoles(h float64) sdf.SDF3 {
	zOfs := 0.5*h - gfMaleHeight + gfHoleHeight
	return gfHoles(gfHoleMinor, h, zOfs)
}

const gfFemaleSize = 42.0
const gfFemaleRound = 0.5 * 8.0
const gfFemaleH0 = 2.15
const gfFemaleH1 = 1.8
const gfFemaleH2 = 0.7
const gfFemaleHeight = gfFemaleH0 + gfFemaleH1 + gfFemaleH2

func gfFemale(ext float64) sdf.SDF3 {
	return gfShape(v2.Vec{gfFemaleSize, gfFemaleSize}, gfFemaleH0, gfFemaleH1, gfFemaleH2, ext, gfFemaleRound)
}

const gfMaleSize = 41.5
const gfMaleRound = 0.5 * 7.5
const gfMaleH0 = 2.15
const gfMaleH1 = 1.8
const gfMaleH2 = 0.8
const gfMaleHeight = gfMaleH0 + gfMaleH1 + gfMaleH2

func gfMale() sdf.SDF3 {
	plug := gfShape(v2.Vec{gfMaleSize, gfMaleSize}, gfMaleH0, gfMaleH1, gfMaleH2, 0, gfMaleRound)
	holes := gfHoles(gfHoleMajor, gfHoleHeight, 0.5*gfHoleHeight-gfMaleHeight)
	return sdf.Difference3D(plug, holes)
}

const gfLipRound = 0.5 * 7.5
const gfLipH0 = 1.9
const gfLipH1 = 1.8
const gfLipH2 = 0.7
const gfLipHeight = gfLipH0 + gfLipH1 + gfLipH2

func gfLip(x, y, empty float64) sdf.SDF3 {
	return gfShape(v2.Vec{x, y}, gfLipH0, gfLipH1, gfLipH2, empty, gfLipRound)
}

const gfHeightSize = 7.0

// values not in the specifications
const gfFloor = 1.0      // floor thickness for an empty container
const gfBaseHeight = 4.0 // extra base height (for magnet mounts, side attachments)

//-----------------------------------------------------------------------------

// GfBaseParms are the gridfinity base parameters.
type GfBaseParms struct {
	Size   v2i.Vec // size of base in gridfinity units
	Magnet bool    // add magnet mounts
	Hole   bool    // add mounting holes
}

// GfBase returns a Gridfinity base grid.
func GfBase(k *GfBaseParms) sdf.SDF3 {
	if k.Size.X <= 0 {
		k.Size.X = 1
	}
	if k.Size.Y <= 0 {
		k.Size.Y = 1
	}

	h := gfFemaleHeight
	if k.Magnet || k.Hole {
		h += gfBaseHeight
	}

	// base body
	size := v2.Vec{float64(k.Size.X), float64(k.Size.Y)}.MulScalar(gfFemaleSize)
	b2d := sdf.Box2D(size, gfFemaleRound)
	base := sdf.Extrude3D(b2d, h)

	// main holes
	grid := gfGrid(k.Size.X, k.Size.Y, 0.5*h)
	holes := sdf.Multi3D(gfFemale(h-gfFemaleHeight), grid)

	// magnet mounts
	var magnets sdf.SDF3
	if k.Magnet || k.Hole {
		const r = gfMaleH0 + gfMaleH2 + gfHoleOffset
		magnets = sdf.Multi3D(gfHoles(r, gfBaseHeight, -h+0.5*gfBaseHeight), grid)
		zOfs := -0.5*gfHoleHeight - h + gfBaseHeight
		magnetHoles := sdf.Multi3D(gfHoles(gfHoleMajor, gfHoleHeight, zOfs), grid)
		magnets = sdf.Difference3D(magnets, magnetHoles)
	}

	// mounting holes
	if k.Hole {
		mountHoles := sdf.Multi3D(gfHoles(gfHoleMinor, h, -0.5*h), grid)
		magnets = sdf.Difference3D(magnets, mountHoles)
	}

	return sdf.Union3D(sdf.Difference3D(base, holes), magnets)
}

//-----------------------------------------------------------------------------

// GfBodyParms are the gridfinity body parameters.
type GfBodyParms struct {
	Size  v3i.Vec // size of body in gridfinity units
	Empty bool    // return an empty container
	Hole  bool    // add through holes to the body
}

// GfBody returns a gridfinity body.
func GfBody(k *GfBodyParms) sdf.SDF3 {

	if k.Size.X <= 0 {
		k.Size.X = 1
	}
	if k.Size.Y <= 0 {
		k.Size.Y = 1
	}
	if k.Size.Z <= 0 {
		k.Size.Z = 1
	}

	// body
	size := v2.Vec{float64(k.Size.X), float64(k.Size.Y)}.MulScalar(gfFemaleSize).SubScalar(gfFemaleSize - gfMaleSize)
	b2d := sdf.Box2D(size, gfMaleRound)
	h := (float64(k.Size.Z) * gfHeightSize) + gfLipHeight - gfMaleHeight
	body := sdf.Extrude3D(b2d, h)

	// grid positions
	grid := gfGrid(k.Size.X, k.Size.Y, -0.5*h)

	// base plugs
	plugs := sdf.Multi3D(gfMale(), grid)

	// through holes
	var holes sdf.SDF3
	if k.Hole {
		holes = sdf.Multi3D(gfThruHoles(h+gfMaleHeight-gfHoleHeight), grid)
	}

	// stacking lip
	empty := 0.0
	if k.Empty {
		empty = h - gfLipHeight - gfFloor
	}
	lip := gfLip(size.X, size.Y, empty)
	lip = sdf.Transform3D(lip, sdf.Translate3d(v3.Vec{0, 0, 0.5 * h}))

	return sdf.Difference3D(sdf.Union3D(body, plugs), sdf.Union3D(lip, holes))
}

//-----------------------------------------------------------------------------
