//-----------------------------------------------------------------------------
/*

2D Finger Button

*/
//-----------------------------------------------------------------------------

package obj

import (
	"github.com/deadsy/sdfx/sdf"
	v2 "github.com/deadsy/sdfx/vec/v2"
)

//-----------------------------------------------------------------------------

// FingerButtonParms defines the parameters for a 2D finger button.
type FingerButtonParms struct {
	Width  float64 // finger width
	Gap    float64 // gap between finger and body
	Length float64 // length of the finger
}

// FingerButton2D returns a 2D cutout for a finger button.
func FingerButton2D(k *FingerButtonParms) (sdf.SDF2, error) {
	r0 := 0.5 * k.Width
	r1 := r0 - k.Gap
	l := 2.0 * k.Length
	s := sdf.Difference2D(sdf.Line2D(l, r0), sdf.Line2D(l, r1))
	s = sdf.Cut2D(s, v2.Vec{0, 0}, v2.Vec{0, 1})
	return sdf.Transform2D(s, sdf.Translate2d(v2.Vec{-k.Length, 0})), nil
}

//-----------------------------------------------------------------------------
