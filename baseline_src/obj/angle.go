//-----------------------------------------------------------------------------
/*

Angle: Create profiles for steel/aluminum angle.

*/
//-----------------------------------------------------------------------------

package obj

import (
	"github.com/deadsy/sdfx/sdf"
)

//-----------------------------------------------------------------------------

// AngleLeg defines the parameters for one leg of a piece of angle.
type AngleLeg struct {
	Length    float64
	Thickness float64
}

// AngleParms defines the parameters for a piece of angle.
type AngleParms struct {
	X, Y       AngleLeg // angle legs
	RootRadius float64  // radius of inside fillet
	Length     float64  // length (3d only)
}

// Angle2D returns a 2d angle profile.
func Angle2D(k *AngleParms) (sdf.SDF2, error) {
	if k.X.Length <= 0 {
		return nil, sdf.ErrMsg("k.X.Length <= 0")
	}
	if k.X.Thickness <= 0 {
		return nil, sdf.ErrMsg("k.X.Thickness <= 0")
	}
	if k.Y.Length <= 0 {
		return nil, sdf.ErrMsg("k.Y.Length <= 0")
	}
	if k.Y.Thickness <= 0 {
		return nil, sdf.ErrMsg("k.Y.Thickness <= 0")
	}
	if k.Y.Thickness >= k.X.Length {
		return nil, sdf.ErrMsg("k.Y.Thickness >= k.X.Length")
	}
	if k.X.Thickness >= k.Y.Length {
		return nil, sdf.ErrMsg("k.X.Thickness >= k.Y.Length")
	}
	if k.RootRadius < 0 {
		return nil, sdf.ErrMsg("k.RootRadius < 0")
	}
	if k.RootRadius > (k.X.Length - k.Y.Thickness) {
		return nil, sdf.ErrMsg("k.RootRadius > (k.X.LengthA - k.Y.Thickness)")
	}
	if k.RootRadius > (k.Y.Length - k.X.Thickness) {
		return nil, sdf.ErrMsg("k.RootRadius > (k.Y.Length - k.X.Thickness)")
	}

	p := sdf.NewPolygon()
	p.Add(0, 0)
	p.Add(k.X.Length, 0)
	p.Add(k.X.Length, k.X.Thickness)
	p.Add(k.Y.Thickness, k.X.Thickness).Smooth(k.RootRadius, 6)
	p.Add(k.Y.Thickness, k.Y.Length)
	p.Add(0, k.Y.Length)

	return sdf.Polygon2D(p.Vertices())
}

// Angle3D returns a piece of 3d angle.
func Angle3D(k *AngleParms) (sdf.SDF3, error) {
	if k.Length <= 0 {
		return nil, sdf.ErrMsg("k.Length <= 0")
	}
	s, err := Angle2D(k)
	if err != nil {
		return nil, err
	}
	return sdf.Extrude3D(s, k.Length), nil
}

//-----------------------------------------------------------------------------
