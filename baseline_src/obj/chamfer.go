//-----------------------------------------------------------------------------
/*

Chamfered Cylinder

*/
//-----------------------------------------------------------------------------

package obj

import "github.com/deadsy/sdfx/sdf"

//-----------------------------------------------------------------------------

// ChamferedCylinder intersects a chamfered cylinder with an SDF3.
func ChamferedCylinder(s sdf.SDF3, kb, kt float64) (sdf.SDF3, error) {
	// get the length and radius from the bounding box
	l := s.BoundingBox().Max.Z
	r := s.BoundingBox().Max.X
	p := sdf.NewPolygon()
	p.Add(0, -l)
	p.Add(r, -l).Chamfer(r * kb)
	p.Add(r, l).Chamfer(r * kt)
	p.Add(0, l)
	s0, err := sdf.Polygon2D(p.Vertices())
	if err != nil {
		return nil, err
	}
	cc, err := sdf.Revolve3D(s0)
	if err != nil {
		return nil, err
	}
	return sdf.Intersect3D(s, cc), nil
}

//-----------------------------------------------------------------------------
