//-----------------------------------------------------------------------------
/*

Drone Parts

*/
//-----------------------------------------------------------------------------

package obj

import (
	"math"

	"github.com/deadsy/sdfx/sdf"
	v2 "github.com/deadsy/sdfx/vec/v2"
	v3 "github.com/deadsy/sdfx/vec/v3"
)

//-----------------------------------------------------------------------------

const hexRoundFactor = 0.2

//-----------------------------------------------------------------------------
// motor mount arm

// DroneArmParms are drone arm parameters.
type DroneArmParms struct {
	MotorSize     v2.Vec  // motor diameter/height
	MotorMount    v3.Vec  // motor mount l0, l1, diameter
	RotorCavity   v2.Vec  // cavity for bottom of rotor
	WallThickness float64 // wall thickness
	SideClearance float64 // wall to motor clearance
	MountHeight   float64 // height of motor mount wrt motor height
	ArmHeight     float64 // height of arm wrt motor mount height
	ArmLength     float64 // length of rotor arm
}

// motorMountHeight returns the height of the motor mount.
func mountHeight(k *DroneArmParms) float64 {
	return (k.MountHeight * k.MotorSize.Y) + k.WallThickness
}

// armHeight returns the height of the arm.
func armHeight(k *DroneArmParms) float64 {
	return mountHeight(k) * k.ArmHeight
}

func droneArm(k *DroneArmParms, inner bool) (sdf.SDF3, error) {

	h0 := mountHeight(k)
	h1 := armHeight(k)
	zOfs := 0.5 * (h0 - h1)

	if inner {
		h1 -= 2 * k.WallThickness
	}
	r := h1 / math.Sqrt(3)
	round := r * hexRoundFactor

	arm, err := Hex3D(r, k.ArmLength, round)
	if err != nil {
		return nil, err
	}

	arm = sdf.Transform3D(arm, sdf.RotateX(sdf.DtoR(90)))
	arm = sdf.Transform3D(arm, sdf.Translate3d(v3.Vec{0, 0.5 * k.ArmLength, -zOfs}))
	arm = sdf.Transform3D(arm, sdf.RotateZ(sdf.DtoR(135)))

	return arm, nil
}

func droneMotorBase(k *DroneArmParms) (sdf.SDF3, error) {

	// base
	r0 := (0.5 * k.MotorSize.X) + k.SideClearance + 0.1*k.WallThickness
	h0 := k.WallThickness
	base, err := sdf.Cylinder3D(h0, r0, 0)
	if err != nil {
		return nil, err
	}

	// base rotor cavity
	r1 := 0.5 * k.RotorCavity.X
	h1 := k.RotorCavity.Y
	cavity, err := sdf.Cylinder3D(h1, r1, 0)
	if err != nil {
		return nil, err
	}
	zOfs := 0.5 * (h0 - h1)
	cavity = sdf.Transform3D(cavity, sdf.Translate3d(v3.Vec{0, 0, zOfs}))

	// mount holes
	r2 := 0.5 * k.MotorMount.Z
	h2 := k.WallThickness
	mountHole, err := CounterSunkHole3D(h2, r2)
	if err != nil {
		return nil, err
	}
	mountHole = sdf.Transform3D(mountHole, sdf.RotateX(sdf.DtoR(180)))
	mountPositions := v3.VecSet{
		{0.5 * k.MotorMount.X, 0, 0},
		{-0.5 * k.MotorMount.X, 0, 0},
		{0, 0.5 * k.MotorMount.Y, 0},
		{0, -0.5 * k.MotorMount.Y, 0},
	}
	mountHoles := sdf.Multi3D(mountHole, mountPositions)

	// vent holes
	vent := sdf.Extrude3D(sdf.Box2D(v2.Vec{r0, r0}, 0.2*r0), k.WallThickness)
	v0 := sdf.Transform3D(vent, sdf.Translate3d(v3.Vec{0.8 * r0, 0.8 * r0, 0}))
	v1 := sdf.Transform3D(v0, sdf.RotateZ(sdf.DtoR(90)))
	v2 := sdf.Transform3D(v0, sdf.RotateZ(sdf.DtoR(-90)))

	s := sdf.Difference3D(base, sdf.Union3D(cavity, mountHoles, v0, v1, v2))

	zOfs = -0.5 * (mountHeight(k) - k.WallThickness)
	return sdf.Transform3D(s, sdf.Translate3d(v3.Vec{0, 0, zOfs})), nil
}

func droneMotorBody(k *DroneArmParms) (sdf.SDF3, error) {
	r := (0.5 * k.MotorSize.X) + k.SideClearance + k.WallThickness
	h := mountHeight(k)
	round := k.WallThickness * 0.5
	return sdf.Cylinder3D(h, r, round)
}

func droneMotorCavity(k *DroneArmParms) (sdf.SDF3, error) {
	r := (0.5 * k.MotorSize.X) + k.SideClearance
	h := mountHeight(k)
	return sdf.Cylinder3D(h, r, 0)
}

// DroneMotorArm returns a drone motor arm.
func DroneMotorArm(k *DroneArmParms) (sdf.SDF3, error) {

	// outer body
	body, err := droneMotorBody(k)
	if err != nil {
		return nil, err
	}

	// inner cavity
	cavity, err := droneMotorCavity(k)
	if err != nil {
		return nil, err
	}

	// motor base
	base, err := droneMotorBase(k)
	if err != nil {
		return nil, err
	}

	// outer arm
	arm0, err := droneArm(k, false)
	if err != nil {
		return nil, err
	}

	// inner arm
	arm1, err := droneArm(k, true)
	if err != nil {
		return nil, err
	}

	// body + arm
	s := sdf.Union3D(body, arm0)
	s.(*sdf.UnionSDF3).SetMin(sdf.PolyMin(3.0))

	// remove the motor cavity
	s = sdf.Difference3D(s, cavity)
	// remove the inner arm
	s = sdf.Difference3D(s, arm1)
	// add the motor mount base
	s = sdf.Union3D(s, base)

	// carve the top and bottom to remove bumps
	h := mountHeight(k) * 0.5
	s = sdf.Cut3D(s, v3.Vec{0, 0, h}, v3.Vec{0, 0, -1})
	s = sdf.Cut3D(s, v3.Vec{0, 0, -h}, v3.Vec{0, 0, 1})

	// x-axis alignment
	s = sdf.Transform3D(s, sdf.RotateZ(sdf.DtoR(-45)))

	return s, nil
}

//-----------------------------------------------------------------------------
// socket to fit the motor arm

// DroneArmSocketParms defines a socket for a drone motor arm.
type DroneArmSocketParms struct {
	Arm       *DroneArmParms // drone arm parameters
	Size      v3.Vec         // body size for socket
	Clearance float64        // clearance between arm and socket
	Stop      float64        // depth of arm stop
}

func socketHeight(k *DroneArmSocketParms) float64 {
	return armHeight(k.Arm) + (2 * k.Clearance)
}

func socketBody(k *DroneArmSocketParms) (sdf.SDF3, error) {
	return sdf.Box3D(k.Size, 0)
}

func socketArmHole(k *DroneArmSocketParms) (sdf.SDF3, error) {

	h := socketHeight(k)
	r := h / math.Sqrt(3)
	round := r * hexRoundFactor

	s, err := Hex3D(r, k.Size.X, round)
	if err != nil {
		return nil, err
	}

	s = sdf.Transform3D(s, sdf.RotateY(sdf.DtoR(90)))
	s = sdf.Transform3D(s, sdf.RotateX(sdf.DtoR(30)))

	return s, nil
}

func socketStop(k *DroneArmSocketParms) (sdf.SDF3, error) {

	h0 := k.Size.Z
	h1 := 0.5*(h0-socketHeight(k)) + k.Arm.WallThickness

	s, err := sdf.Box3D(v3.Vec{k.Arm.WallThickness, k.Size.Y, h1}, 0)
	if err != nil {
		return nil, err
	}

	zOfs := -0.5 * (h0 - h1)
	xOfs := 0.5*(k.Size.X-k.Arm.WallThickness) - k.Stop

	s = sdf.Transform3D(s, sdf.Translate3d(v3.Vec{xOfs, 0, zOfs}))
	return s, nil
}

// DroneMotorArmSocket returns a socket for a drone motor arm.
func DroneMotorArmSocket(k *DroneArmSocketParms) (sdf.SDF3, error) {
	h := socketHeight(k)
	if k.Size.Y <= h || k.Size.Z <= h {
		return nil, sdf.ErrMsg("socket body is too small for arm")
	}
	if k.Stop >= (k.Size.X - k.Arm.WallThickness) {
		return nil, sdf.ErrMsg("socket body is shorter than arm stop depth")
	}

	body, err := socketBody(k)
	if err != nil {
		return nil, err
	}

	hole, err := socketArmHole(k)
	if err != nil {
		return nil, err
	}

	stop, err := socketStop(k)
	if err != nil {
		return nil, err
	}

	s := sdf.Difference3D(body, hole)
	s = sdf.Union3D(s, stop)

	return s, nil
}

//-----------------------------------------------------------------------------
