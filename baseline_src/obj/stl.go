//-----------------------------------------------------------------------------
/*

Closed-surface triangle meshes (and STL files)

*/
//-----------------------------------------------------------------------------

package obj

import (
	"math"

	"github.com/deadsy/sdfx/render"
	"github.com/deadsy/sdfx/sdf"
	v3 "github.com/deadsy/sdfx/vec/v3"
	"github.com/dhconnelly/rtreego"
)

//-----------------------------------------------------------------------------

func v3ToPoint(v v3.Vec) rtreego.Point {
	return rtreego.Point{v.X, v.Y, v.Z}
}

//-----------------------------------------------------------------------------

type triMeshSdf struct {
	rtree        *rtreego.Rtree
	numNeighbors int
	bb           sdf.Box3
}

const stlEpsilon = 1e-1

func (t *triMeshSdf) Evaluate(p v3.Vec) float64 {
	// Check all triangle distances
	signedDistanceResult := 1.
	closestTriangle := math.MaxFloat64
	// Quickly skip checking most triangles by only checking the N closest neighbours (AABB based)
	neighbors := t.rtree.NearestNeighbors(t.numNeighbors, v3ToPoint(p))
	for _, neighbor := range neighbors {
		triangle := neighbor.(*sdf.Triangle3)
		testPointToTriangle := p.Sub(triangle[0])
		triNormal := triangle.Normal()
		signedDistanceToTriPlane := triNormal.Dot(testPointToTriangle)
		// Take this triangle as the source of truth if the projection of the point on the triangle is the closest
		distToTri, _ := stlPointToTriangleDistSq(p, triangle)
		if distToTri < closestTriangle {
			closestTriangle = distToTri
			signedDistanceResult = signedDistanceToTriPlane
		}
	}
	return signedDistanceResult
}

func (t *triMeshSdf) BoundingBox() sdf.Box3 {
	return t.bb
}

// ImportTriMesh converts a triangle-based mesh into a SDF3 surface. minChildren and maxChildren are parameters that can
// affect the performance of the internal data structure (3 and 5 are a good default; maxChildren >= minChildren > 0).
//
// WARNING: Setting a low numNeighbors will consider many fewer triangles for each evaluated point, greatly speeding up
// the algorithm. However, if the count of triangles is too low artifacts will appear on the surface (triangle
// continuations). Setting this value to MaxInt is extremely slow but will provide correct results, so choose a value
// that works for your model.
//
// It is recommended to cache (and/or smooth) its values by using sdf.VoxelSdf3.
//
// WARNING: It will only work on non-intersecting closed-surface(s) meshes.
// NOTE: Fix using blender for intersecting surfaces: Edit mode > P > By loose parts > Add boolean modifier to join them
func ImportTriMesh(mesh []*sdf.Triangle3, numNeighbors, minChildren, maxChildren int) sdf.SDF3 {
	if len(mesh) == 0 {
		return nil
	}
	// Compute the bounding box
	bulkLoad := make([]rtreego.Spatial, len(mesh))
	bb := mesh[0].BoundingBox()
	for i, triangle := range mesh {
		bulkLoad[i] = triangle
		bb = bb.Extend(triangle.BoundingBox())
	}
	return &triMeshSdf{
		rtree:        rtreego.NewTree(3, minChildren, maxChildren, bulkLoad...),
		numNeighbors: numNeighbors,
		bb:           bb,
	}
}

//-----------------------------------------------------------------------------

func stlPointToTriangleDistSq(p v3.Vec, triangle *sdf.Triangle3) (float64, bool /* falls outside? */) {
	// Compute the closest point
	closest, fallsOutside := stlClosestTrianglePointTo(p, triangle)
	// Compute distance to the closest point
	closestToP := p.Sub(closest)
	distance := closestToP.Length2()
	// Solve influence (distance) ties, by prioritizing triangles with normals more aligned to `closestToP`.
	// This should fix ghost triangle extensions and smooth the field over sharp angles.
	if fallsOutside { // <-- This is an optimization, as others have 0 extra influence in this step
		distance *= 1 + (1-math.Abs(closestToP.Normalize().Dot(triangle.Normal())))*stlEpsilon
	}
	//log.Println(distance, closestToP.Normalize().Dot(triangle.Normal()))
	return distance, fallsOutside
}

// https://stackoverflow.com/a/47505833
func stlClosestTrianglePointTo(p v3.Vec, triangle *sdf.Triangle3) (v3.Vec, bool /* falls outside? */) {
	edgeAbDelta := triangle[1].Sub(triangle[0])
	edgeCaDelta := triangle[0].Sub(triangle[2])
	edgeBcDelta := triangle[2].Sub(triangle[1])

	// The closest point may be a vertex
	uab := stlEdgeProject(triangle[0], edgeAbDelta, p)
	uca := stlEdgeProject(triangle[2], edgeCaDelta, p)
	if uca > 1 && uab < 0 {
		return triangle[0], true
	}
	ubc := stlEdgeProject(triangle[1], edgeBcDelta, p)
	if uab > 1 && ubc < 0 {
		return triangle[1], true
	}
	if ubc > 1 && uca < 0 {
		return triangle[2], true
	}

	// The closest point may be on an edge
	triNormal := triangle.Normal()
	planeAbNormal := triNormal.Cross(edgeAbDelta)
	planeBcNormal := triNormal.Cross(edgeBcDelta)
	planeCaNormal := triNormal.Cross(edgeCaDelta)
	if uab >= 0 && uab <= 1 && !stlPlaneIsAbove(triangle[0], planeAbNormal, p) {
		return stlEdgePointAt(triangle[0], edgeAbDelta, uab), true
	}
	if ubc >= 0 && ubc <= 1 && !stlPlaneIsAbove(triangle[1], planeBcNormal, p) {
		return stlEdgePointAt(triangle[1], edgeBcDelta, ubc), true
	}
	if uca >= 0 && uca <= 1 && !stlPlaneIsAbove(triangle[2], planeCaNormal, p) {
		return stlEdgePointAt(triangle[2], edgeCaDelta, uca), true
	}

	// The closest point is in the triangle so project to the plane to find it
	return stlPlaneProject(triangle[0], triNormal, p), false
}

func stlEdgeProject(edge1, edgeDelta, p v3.Vec) float64 {
	return p.Sub(edge1).Dot(edgeDelta) / edgeDelta.Length2()
}

func stlEdgePointAt(edge1, edgeDelta v3.Vec, t float64) v3.Vec {
	return edge1.Add(edgeDelta.MulScalar(t))
}

func stlPlaneIsAbove(anyPoint, normal, testPoint v3.Vec) bool {
	return normal.Dot(testPoint.Sub(anyPoint)) > 0
}

func stlPlaneProject(anyPoint, normal, testPoint v3.Vec) v3.Vec {
	v := testPoint.Sub(anyPoint)
	d := normal.Dot(v)
	p := testPoint.Sub(normal.MulScalar(d))
	return p
}

//-----------------------------------------------------------------------------

// ImportSTL converts an STL model into a SDF3 surface. See ImportTriMesh.
func ImportSTL(path string, numNeighbors, minChildren, maxChildren int) (sdf.SDF3, error) {
	mesh, err := render.LoadSTL(path)
	if err != nil {
		return nil, err
	}
	return ImportTriMesh(mesh, numNeighbors, minChildren, maxChildren), nil
}

//-----------------------------------------------------------------------------
