//-----------------------------------------------------------------------------
/*

Arrows and Coordinate Axes

*/
//-----------------------------------------------------------------------------

package obj

import (
	"fmt"

	"github.com/deadsy/sdfx/sdf"
	v3 "github.com/deadsy/sdfx/vec/v3"
)

//-----------------------------------------------------------------------------

func arrowStyle3D(style byte, size [2]float64, tail bool) (sdf.SDF3, error) {
	// nothing
	if style == '.' {
		return nil, nil
	}
	// ball
	if style == 'b' {
		return sdf.Sphere3D(size[1])
	}
	// cone
	if style == 'c' {
		cone, err := sdf.Cone3D(size[0], size[1], 0, 0)
		if err != nil {
			return nil, err
		}
		cone = sdf.Transform3D(cone, sdf.Translate3d(v3.Vec{0, 0, size[0] * 0.5}))
		if tail {
			// flip it
			cone = sdf.Transform3D(cone, sdf.RotateX(sdf.Pi))
		}
		return cone, nil
	}
	return nil, sdf.ErrMsg(fmt.Sprintf("bad style character '%c'", style))
}

//-----------------------------------------------------------------------------

// ArrowParms defines the parameters for an arrow.
type ArrowParms struct {
	Axis  [2]float64 // length/radius of arrow axis
	Head  [2]float64 // length/radius of arrow head
	Tail  [2]float64 // length/radius of arrow tail
	Style string     // head, tail "c" = cone, "b" == ball (else nothing)
}

// Arrow3D returns an arrow.
func Arrow3D(k *ArrowParms) (sdf.SDF3, error) {
	if k == nil {
		return nil, sdf.ErrMsg("k == nil")
	}

	// decode the head/tail style
	var head, tail sdf.SDF3
	var err error
	switch len(k.Style) {
	case 0:
		// no style
	case 1:
		head, err = arrowStyle3D(k.Style[0], k.Head, false)
		if err != nil {
			return nil, err
		}
	case 2:
		head, err = arrowStyle3D(k.Style[0], k.Head, false)
		if err != nil {
			return nil, err
		}
		tail, err = arrowStyle3D(k.Style[1], k.Tail, true)
		if err != nil {
			return nil, err
		}
	default:
		return nil, sdf.ErrMsg("style string is too long")
	}

	// build the axis
	axis, err := sdf.Capsule3D(k.Axis[0]+(2.0*k.Axis[1]), k.Axis[1])
	if err != nil {
		return nil, err
	}

	zOfs := k.Axis[0] * 0.5
	if head != nil {
		head = sdf.Transform3D(head, sdf.Translate3d(v3.Vec{0, 0, zOfs}))
	}
	if tail != nil {
		tail = sdf.Transform3D(tail, sdf.Translate3d(v3.Vec{0, 0, -zOfs}))
	}
	return sdf.Union3D(axis, head, tail), nil
}

//-----------------------------------------------------------------------------

func axis3D(a, b, r float64) (sdf.SDF3, error) {
	if a == b {
		return nil, nil
	}
	// ensure a < b
	if a > b {
		a, b = b, a
	}
	style := "cc"
	if a == 0 {
		style = "c."
	}
	if b == 0 {
		style = ".c"
	}
	l0 := b - a
	r0 := r
	r1 := r * 1.5
	l1 := r * 3
	k := ArrowParms{
		Axis:  [2]float64{l0, r0},
		Head:  [2]float64{l1, r1},
		Tail:  [2]float64{l1, r1},
		Style: style,
	}
	s, err := Arrow3D(&k)
	if err != nil {
		return nil, err
	}
	ofs := (a + b) * 0.5
	return sdf.Transform3D(s, sdf.Translate3d(v3.Vec{0, 0, ofs})), nil
}

// Axes3D returns a set of axes for a 1, 2 or 3d coordinate systems.
func Axes3D(p0, p1 v3.Vec) (sdf.SDF3, error) {
	// work out the common axis radius
	r := p0.Sub(p1).Abs().MaxComponent() * 0.025
	// x-axis
	x, err := axis3D(p0.X, p1.X, r)
	if err != nil {
		return nil, err
	}
	if x != nil {
		x = sdf.Transform3D(x, sdf.RotateY(sdf.DtoR(90)))
	}
	// y-axis
	y, err := axis3D(p0.Y, p1.Y, r)
	if err != nil {
		return nil, err
	}
	if y != nil {
		y = sdf.Transform3D(y, sdf.RotateX(sdf.DtoR(-90)))
	}
	// z-axis
	z, err := axis3D(p0.Z, p1.Z, r)
	if err != nil {
		return nil, err
	}
	return sdf.Union3D(x, y, z), nil
}

//-----------------------------------------------------------------------------

// DirectedArrow3D returns an arrow between points head/tail.
func DirectedArrow3D(k *ArrowParms, head, tail v3.Vec) (sdf.SDF3, error) {
	v := head.Sub(tail)
	l := v.Length()
	k.Axis[0] = l
	arrow, err := Arrow3D(k)
	if err != nil {
		return nil, err
	}
	// position the arrow
	ofs := head.Add(tail).MulScalar(0.5)
	m := sdf.Translate3d(ofs).Mul(sdf.RotateToVector(v3.Vec{0, 0, 1}, v))
	return sdf.Transform3D(arrow, m), nil
}

//-----------------------------------------------------------------------------
