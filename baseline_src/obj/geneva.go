//-----------------------------------------------------------------------------
/*

Geneva Drive

See: https://en.wikipedia.org/wiki/Geneva_drive

*/
//-----------------------------------------------------------------------------

package obj

import (
	"math"

	"github.com/deadsy/sdfx/sdf"
	v2 "github.com/deadsy/sdfx/vec/v2"
)

//-----------------------------------------------------------------------------

// GenevaParms specfies the geneva drive parameters.
type GenevaParms struct {
	NumSectors     int     // number of sectors in the driven wheel
	CenterDistance float64 // center to center distance of driver/driven wheels
	DriverRadius   float64 // radius of lock portion of driver wheel
	DrivenRadius   float64 // radius of driven wheel
	PinRadius      float64 // radius of driver pin
	Clearance      float64 // pin/slot and wheel/wheel clearance
}

// Geneva2D makes 2d profiles for the driver/driven wheels of a geneva drive.
func Geneva2D(k *GenevaParms) (sdf.SDF2, sdf.SDF2, error) {

	if k.NumSectors < 2 {
		return nil, nil, sdf.ErrMsg("invalid number of sectors, must be > 2")
	}
	if k.CenterDistance <= 0 ||
		k.DrivenRadius <= 0 ||
		k.DriverRadius <= 0 ||
		k.PinRadius <= 0 {
		return nil, nil, sdf.ErrMsg("invalid dimensions, must be > 0")
	}
	if k.Clearance < 0 {
		return nil, nil, sdf.ErrMsg("invalid clearance, must be >= 0")
	}
	if k.CenterDistance > k.DrivenRadius+k.DriverRadius {
		return nil, nil, sdf.ErrMsg("center distance is too large")
	}

	// work out the pin offset from the center of the driver wheel
	theta := sdf.Tau / (2.0 * float64(k.NumSectors))
	d := k.CenterDistance
	r := k.DrivenRadius
	pinOffset := math.Sqrt((d * d) + (r * r) - (2 * d * r * math.Cos(theta)))

	// driven wheel
	sDriven, err := sdf.Circle2D(k.DrivenRadius - k.Clearance)
	if err != nil {
		return nil, nil, err
	}
	// cutouts for the driver wheel
	s, err := sdf.Circle2D(k.DriverRadius + k.Clearance)
	if err != nil {
		return nil, nil, err
	}
	s = sdf.Transform2D(s, sdf.Translate2d(v2.Vec{k.CenterDistance, 0}))
	s = sdf.RotateCopy2D(s, k.NumSectors)
	sDriven = sdf.Difference2D(sDriven, s)
	// cutouts for the pin slots
	slotLength := pinOffset + k.DrivenRadius - k.CenterDistance
	s = sdf.Line2D(2*slotLength, k.PinRadius+k.Clearance)
	s = sdf.Transform2D(s, sdf.Translate2d(v2.Vec{k.DrivenRadius, 0}))
	s = sdf.RotateCopy2D(s, k.NumSectors)
	s = sdf.Transform2D(s, sdf.Rotate2d(theta))
	sDriven = sdf.Difference2D(sDriven, s)

	// driver wheel
	sDriver, err := sdf.Circle2D(k.DriverRadius - k.Clearance)
	if err != nil {
		return nil, nil, err
	}
	// cutout for the driven wheel
	s, err = sdf.Circle2D(k.DrivenRadius + k.Clearance)
	if err != nil {
		return nil, nil, err
	}
	s = sdf.Transform2D(s, sdf.Translate2d(v2.Vec{k.CenterDistance, 0}))
	sDriver = sdf.Difference2D(sDriver, s)
	// driver pin
	s, err = sdf.Circle2D(k.PinRadius)
	if err != nil {
		return nil, nil, err
	}
	s = sdf.Transform2D(s, sdf.Translate2d(v2.Vec{pinOffset, 0}))
	sDriver = sdf.Union2D(sDriver, s)

	return sDriver, sDriven, nil
}

//-----------------------------------------------------------------------------
