//-----------------------------------------------------------------------------
/*

4 Part Panel Box

*/
//-----------------------------------------------------------------------------

package obj

import (
	"math"
	"strings"

	"github.com/deadsy/sdfx/sdf"
	v2 "github.com/deadsy/sdfx/vec/v2"
	v3 "github.com/deadsy/sdfx/vec/v3"
)

//-----------------------------------------------------------------------------

type boxTabParms struct {
	Wall        float64 // wall thickness
	Length      float64 // tab length
	Hole        float64 // hole diameter >= 0 gives a larger tab with a screw hole
	HoleOffset  float64 // hole offset
	Orientation string  // orientation of tab
	Clearance   float64 // fit clearance (typically 0.05)
}

// boxTab3d returns an oriented tab for the box side.
func boxTab3d(k *boxTabParms) (sdf.SDF3, error) {

	w := k.Wall
	l := (1.0 - 2.0*k.Clearance) * k.Length

	var h float64
	if k.Hole > 0 {
		h = 6.0 * k.Wall
	} else {
		h = 4.0 * k.Wall
	}

	tab := sdf.Extrude3D(sdf.Box2D(v2.Vec{l, h}, 0.25*h), w)
	// add a slope where the tab attaches to the box, avoiding overhangs.
	tab = sdf.Cut3D(tab, v3.Vec{0, 0.5 * h, 0.5 * w}, v3.Vec{0, -1, 1})

	// add a cutout to give some tab/body clearance
	w1 := 2.0 * k.Clearance * w
	cutout, err := sdf.Box3D(v3.Vec{l, h - 2.0*k.Wall, w1}, 0)
	if err != nil {
		return nil, err
	}
	cutout = sdf.Transform3D(cutout, sdf.Translate3d(v3.Vec{0, -w, 0.5 * (w - w1)}))
	tab = sdf.Difference3D(tab, cutout)

	if k.Hole > 0 {
		// adjust the tab, 4 * k.Wall above, 2 * k.Wall below
		tab = sdf.Transform3D(tab, sdf.Translate3d(v3.Vec{0, -w, 0}))
		// put a hole in the tab
		hole, err := sdf.Cylinder3D(w, 0.5*k.Hole, 0)
		if err != nil {
			return nil, err
		}
		hole = sdf.Transform3D(hole, sdf.Translate3d(v3.Vec{0, -k.HoleOffset, 0}))
		tab = sdf.Difference3D(tab, hole)
	}

	m := sdf.Identity3d()
	switch k.Orientation {
	case "bl": // bottom, left
		m = m.Mul(sdf.Translate3d(v3.Vec{(0.5 - k.Clearance) * w, 0, -0.5 * k.Length}))
		m = m.Mul(sdf.RotateY(sdf.DtoR(90)))
		m = m.Mul(sdf.RotateX(sdf.Pi))
	case "tl": // top, left
		m = m.Mul(sdf.Translate3d(v3.Vec{(0.5 - k.Clearance) * w, 0, -0.5 * k.Length}))
		m = m.Mul(sdf.RotateY(sdf.DtoR(-90)))
	case "br": // bottom, right
		m = m.Mul(sdf.Translate3d(v3.Vec{(-0.5 + k.Clearance) * w, 0, -0.5 * k.Length}))
		m = m.Mul(sdf.RotateY(sdf.DtoR(-90)))
		m = m.Mul(sdf.RotateX(sdf.Pi))
	case "tr": // top, right
		m = m.Mul(sdf.Translate3d(v3.Vec{(-0.5 + k.Clearance) * w, 0, -0.5 * k.Length}))
		m = m.Mul(sdf.RotateY(sdf.DtoR(90)))
	default:
		return nil, sdf.ErrMsg("invalid tab orientation")
	}
	return sdf.Transform3D(tab, m), nil
}

//-----------------------------------------------------------------------------

type boxHoleParms struct {
	Length      float64 // total hole length
	Hole        float64 // hole diameter
	ZOffset     float64 // hole offset in z-direction (along body length)
	YOffset     float64 // hole offset in y-direction (along body height)
	Orientation string  // orientation of tab
}

// boxHole3d returns an oriented countersunk hole for the box side.
func boxHole3d(k *boxHoleParms) (sdf.SDF3, error) {
	hole, err := CounterSunkHole3D(k.Length, 0.5*k.Hole)
	if err != nil {
		return nil, err
	}
	hole = sdf.Transform3D(hole, sdf.Translate3d(v3.Vec{0, 0, 0.5 * k.Length}))
	m := sdf.Identity3d()
	switch k.Orientation {
	case "bl": // bottom, left
		m = m.Mul(sdf.Translate3d(v3.Vec{0, -k.YOffset, -k.ZOffset}))
		m = m.Mul(sdf.RotateY(sdf.DtoR(-90)))
	case "tl": // top, left
		m = m.Mul(sdf.Translate3d(v3.Vec{0, k.YOffset, -k.ZOffset}))
		m = m.Mul(sdf.RotateY(sdf.DtoR(-90)))
	case "br": // bottom, right
		m = m.Mul(sdf.Translate3d(v3.Vec{0, -k.YOffset, -k.ZOffset}))
		m = m.Mul(sdf.RotateY(sdf.DtoR(90)))
	case "tr": // top, right
		m = m.Mul(sdf.Translate3d(v3.Vec{0, k.YOffset, -k.ZOffset}))
		m = m.Mul(sdf.RotateY(sdf.DtoR(90)))
	default:
		return nil, sdf.ErrMsg("invalid hole orientation")
	}
	return sdf.Transform3D(hole, m), nil
}

//-----------------------------------------------------------------------------
// 4 part panel box

// Convert the tab pattern to "..x.." form with the tab type of interest.
func filterTabs(pattern string, tab rune) string {
	out := make([]byte, len(pattern))
	for i, c := range pattern {
		if c == tab {
			out[i] = byte('x')
		} else {
			out[i] = byte('.')
		}
	}
	return string(out)
}

// PanelBoxParms defines the parameters for a 4 part panel box.
type PanelBoxParms struct {
	Size       v3.Vec  // outer box dimensions (width, height, length)
	Wall       float64 // wall thickness
	Panel      float64 // front/back panel thickness
	Rounding   float64 // radius of corner rounding
	FrontInset float64 // inset depth of box front
	BackInset  float64 // inset depth of box back
	Clearance  float64 // fit clearance (typically 0.05)
	Hole       float64 // diameter of screw holes
	SideTabs   string  // tab pattern b/B (bottom) t/T (top) . (empty)
}

// PanelBox3D returns a 4 part panel box.
func PanelBox3D(k *PanelBoxParms) ([]sdf.SDF3, error) {
	// sanity checks
	if k.Size.X <= 0 || k.Size.Y <= 0 || k.Size.Z <= 0 {
		return nil, sdf.ErrMsg("invalid box size")
	}
	if k.Wall <= 0 {
		return nil, sdf.ErrMsg("invalid wall size, k.Wall <= 0")
	}
	if k.Panel <= 0 {
		return nil, sdf.ErrMsg("invalid panel size, k.Panel <= 0")
	}
	if k.Rounding < 0 {
		return nil, sdf.ErrMsg("invalid rounding size, k.Rounding < 0")
	}
	if k.FrontInset < 0 {
		return nil, sdf.ErrMsg("invalid front inset size, k.FrontInset < 0")
	}
	if k.BackInset < 0 {
		return nil, sdf.ErrMsg("invalid back inset size, k.BackInset < 0")
	}
	if k.Clearance < 0 || k.Clearance > 1.0 {
		return nil, sdf.ErrMsg("invalid clearance")
	}
	if k.Clearance == 0 {
		// set a default
		k.Clearance = 0.05
	}
	if k.Hole < 0 {
		return nil, sdf.ErrMsg("invalid hole size, k.Hole < 0")
	}
	if k.Hole > 0 {
		if !strings.Contains(k.SideTabs, "T") && !strings.Contains(k.SideTabs, "B") {
			return nil, sdf.ErrMsg("hole is non-zero, but there are no tabs (T/B)")
		}
	}

	// the panel gap is slightly larger than the panel thickness
	panelGap := (1.0 + (4.0 * k.Clearance)) * k.Panel

	midZ := k.Size.Z - k.FrontInset - k.BackInset - 2.0*(panelGap+2.0*k.Wall)
	if midZ <= 0.0 {
		return nil, sdf.ErrMsg("the front and back panel depths exceed the total box length")
	}

	outerSize := v2.Vec{k.Size.X, k.Size.Y}
	innerSize := outerSize.SubScalar(2.0 * k.Wall)
	ridgeSize := innerSize.SubScalar(2.0 * k.Wall)

	innerPlusSize := innerSize.AddScalar(2.0 * k.Clearance * k.Wall)
	innerMinusSize := innerSize.SubScalar(4.0 * k.Clearance * k.Wall)
	innerRounding := math.Max(0.0, k.Rounding-k.Wall)

	outer := sdf.Box2D(outerSize, k.Rounding)
	inner := sdf.Box2D(innerSize, innerRounding)
	innerPlus := sdf.Box2D(innerPlusSize, innerRounding)
	innerMinus := sdf.Box2D(innerMinusSize, innerRounding)
	ridge := sdf.Box2D(ridgeSize, math.Max(0.0, k.Rounding-2.0*k.Wall))

	// front/pack panels
	panel := sdf.Extrude3D(innerMinus, k.Panel)

	// box
	box := sdf.Extrude3D(sdf.Difference2D(outer, inner), k.Size.Z)

	// add the panel holding ridges
	pr := sdf.Extrude3D(sdf.Difference2D(innerPlus, ridge), k.Wall)
	z0 := 0.5*(k.Size.Z-k.Wall) - k.FrontInset
	z1 := z0 - k.Wall - panelGap
	z2 := 0.5*(k.Wall-k.Size.Z) + k.BackInset
	z3 := z2 + k.Wall + panelGap
	pr0 := sdf.Transform3D(pr, sdf.Translate3d(v3.Vec{0, 0, z0}))
	pr1 := sdf.Transform3D(pr, sdf.Translate3d(v3.Vec{0, 0, z1}))
	pr2 := sdf.Transform3D(pr, sdf.Translate3d(v3.Vec{0, 0, z2}))
	pr3 := sdf.Transform3D(pr, sdf.Translate3d(v3.Vec{0, 0, z3}))
	box = sdf.Union3D(box, pr0, pr1, pr2, pr3)

	// cut the top and bottom box halves
	top := sdf.Cut3D(box, v3.Vec{}, v3.Vec{0, 1, 0})
	bottom := sdf.Cut3D(box, v3.Vec{}, v3.Vec{0, -1, 0})

	if k.SideTabs != "" {
		// tabs with no holes

		tabLength := midZ / float64(len(k.SideTabs))
		z0 := 0.5*k.Size.Z - k.FrontInset - 2.0*k.Wall - k.Panel
		z1 := -0.5*k.Size.Z + k.BackInset + 2.0*k.Wall + k.Panel
		x := 0.5*k.Size.X - k.Wall

		tPattern := filterTabs(k.SideTabs, 't')
		bPattern := filterTabs(k.SideTabs, 'b')

		tp := &boxTabParms{
			Wall:      k.Wall,
			Length:    tabLength,
			Clearance: k.Clearance,
		}

		// top panel left side
		tp.Orientation = "tl"
		tlTabs, err := boxTab3d(tp)
		if err != nil {
			return nil, err
		}
		tlTabs = sdf.LineOf3D(tlTabs, v3.Vec{-x, 0, z0}, v3.Vec{-x, 0, z1}, tPattern)

		// top panel right side
		tp.Orientation = "tr"
		trTabs, err := boxTab3d(tp)
		if err != nil {
			return nil, err
		}
		trTabs = sdf.LineOf3D(trTabs, v3.Vec{x, 0, z0}, v3.Vec{x, 0, z1}, tPattern)

		// add tabs to the top panel
		top = sdf.Union3D(top, tlTabs, trTabs)

		// bottom panel left side
		tp.Orientation = "bl"
		blTabs, err := boxTab3d(tp)
		if err != nil {
			return nil, err
		}
		blTabs = sdf.LineOf3D(blTabs, v3.Vec{-x, 0, z0}, v3.Vec{-x, 0, z1}, bPattern)

		// bottom panel right side
		tp.Orientation = "br"
		brTabs, err := boxTab3d(tp)
		if err != nil {
			return nil, err
		}
		brTabs = sdf.LineOf3D(brTabs, v3.Vec{x, 0, z0}, v3.Vec{x, 0, z1}, bPattern)

		// add tabs to the bottom panel
		bottom = sdf.Union3D(bottom, blTabs, brTabs)

		if k.Hole > 0 {
			// tabs with holes
			tPattern := filterTabs(k.SideTabs, 'T')
			bPattern := filterTabs(k.SideTabs, 'B')

			holeOffset := 2.0 * k.Wall

			// tabs
			tp := &boxTabParms{
				Wall:       k.Wall,
				Length:     tabLength,
				Hole:       0.85 * k.Hole,
				HoleOffset: holeOffset,
				Clearance:  k.Clearance,
			}

			// top panel left side
			tp.Orientation = "tl"
			tlTabs, err := boxTab3d(tp)
			if err != nil {
				return nil, err
			}
			tlTabs = sdf.LineOf3D(tlTabs, v3.Vec{-x, 0, z0}, v3.Vec{-x, 0, z1}, tPattern)

			// top panel right side
			tp.Orientation = "tr"
			trTabs, err := boxTab3d(tp)
			if err != nil {
				return nil, err
			}
			trTabs = sdf.LineOf3D(trTabs, v3.Vec{x, 0, z0}, v3.Vec{x, 0, z1}, tPattern)

			// add tabs to the top panel
			top = sdf.Union3D(top, tlTabs, trTabs)

			// bottom panel left side
			tp.Orientation = "bl"
			blTabs, err := boxTab3d(tp)
			if err != nil {
				return nil, err
			}
			blTabs = sdf.LineOf3D(blTabs, v3.Vec{-x, 0, z0}, v3.Vec{-x, 0, z1}, bPattern)

			// bottom panel right side
			tp.Orientation = "br"
			brTabs, err := boxTab3d(tp)
			if err != nil {
				return nil, err
			}
			brTabs = sdf.LineOf3D(brTabs, v3.Vec{x, 0, z0}, v3.Vec{x, 0, z1}, bPattern)

			// add tabs to the bottom panel
			bottom = sdf.Union3D(bottom, blTabs, brTabs)

			// holes
			hp := &boxHoleParms{
				Length:  k.Wall,
				Hole:    k.Hole,
				ZOffset: 0.5 * tabLength,
				YOffset: holeOffset,
			}

			// top panel left side
			hp.Orientation = "tl"
			tlHoles, err := boxHole3d(hp)
			if err != nil {
				return nil, err
			}
			tlHoles = sdf.LineOf3D(tlHoles, v3.Vec{-x, 0, z0}, v3.Vec{-x, 0, z1}, bPattern)

			// top panel right side
			hp.Orientation = "tr"
			trHoles, err := boxHole3d(hp)
			if err != nil {
				return nil, err
			}
			trHoles = sdf.LineOf3D(trHoles, v3.Vec{x, 0, z0}, v3.Vec{x, 0, z1}, bPattern)

			// add holes to the top panel
			tHoles := sdf.Union3D(tlHoles, trHoles)
			top = sdf.Difference3D(top, tHoles)

			// bottom panel left side
			hp.Orientation = "bl"
			blHoles, err := boxHole3d(hp)
			if err != nil {
				return nil, err
			}
			blHoles = sdf.LineOf3D(blHoles, v3.Vec{-x, 0, z0}, v3.Vec{-x, 0, z1}, tPattern)

			// bottom panel right side
			hp.Orientation = "br"
			brHoles, err := boxHole3d(hp)
			if err != nil {
				return nil, err
			}
			brHoles = sdf.LineOf3D(brHoles, v3.Vec{x, 0, z0}, v3.Vec{x, 0, z1}, tPattern)

			// add holes to the bottom panel
			bHoles := sdf.Union3D(blHoles, brHoles)
			bottom = sdf.Difference3D(bottom, bHoles)
		}
	}

	return []sdf.SDF3{panel, top, bottom}, nil
}

//-----------------------------------------------------------------------------
