//-----------------------------------------------------------------------------
/*

Drain Covers

This code implements a parametric drain cover. Draft angles are implemented so a
3D printed model can be used as a sand casting pattern.

*/
//-----------------------------------------------------------------------------

package obj

import (
	"math"

	"github.com/deadsy/sdfx/sdf"
	v3 "github.com/deadsy/sdfx/vec/v3"
)

//-----------------------------------------------------------------------------

// DrainCoverParms defines a grated drain pipe cover.
type DrainCoverParms struct {
	WallDiameter   float64 // outer diameter of wall
	WallHeight     float64 // height of wall
	WallThickness  float64 // thickness of wall
	WallDraft      float64 // draft angle of walls
	OuterWidth     float64 // extra width beyond the wall
	InnerWidth     float64 // width between inner wall and grate field
	CoverThickness float64 // thickness of the drain cover
	GrateNumber    int     // number of grate slots
	GrateWidth     float64 // multiple of inter-slot gap
	GrateDraft     float64 // draft angle of grate slots (radians)
	CrossBarWidth  float64 // multiple of InnerWidth
	CrossBarWeb    bool    // add a reinforcing crossbar web
}

//-----------------------------------------------------------------------------

func dcBody(k *DrainCoverParms) (sdf.SDF3, error) {

	// x drafts
	dx0 := 0.5 * k.CoverThickness * math.Tan(k.WallDraft)
	dx1 := 0.5 * k.WallHeight * math.Tan(k.WallDraft)

	// x radii
	r0 := 0.5 * k.WallDiameter
	r1 := r0 + k.OuterWidth
	r2 := r0 - k.WallThickness

	// y thicknesses
	t0 := k.CoverThickness
	t1 := t0 + k.WallHeight

	// build the 2d profile
	p := sdf.NewPolygon()
	p.Add(0, 0)
	p.Add(r1+dx0, 0)
	p.Add(r1-dx0, t0).Smooth(0.25*k.CoverThickness, 4)
	p.Add(r0+dx1, t0).Smooth(0.25*k.WallThickness, 4)
	p.Add(r0-dx1, t1).Smooth(0.25*k.WallThickness, 4)
	p.Add(r2+dx1, t1).Smooth(0.25*k.WallThickness, 4)
	p.Add(r2-dx1, t0).Smooth(0.25*k.WallThickness, 4)
	p.Add(0, t0)

	s, err := sdf.Polygon2D(p.Vertices())
	if err != nil {
		return nil, err
	}

	// return the revolved profile
	return sdf.Revolve3D(s)
}

// dcGrate returns a grate (no crossbar)
func dcGrate(k *DrainCoverParms) (sdf.SDF3, error) {

	r := (0.5 * k.WallDiameter) - k.InnerWidth
	n := float64(k.GrateNumber)
	g := (2.0 * r) / (n + (n * k.GrateWidth) + 1.0)
	w := k.GrateWidth * g

	x := g + (0.5 * w) - r
	dx := g + w

	slots := make([]sdf.SDF3, k.GrateNumber)
	for i := 0; i < k.GrateNumber; i++ {
		l := 2.0 * math.Sqrt((r*r)-(x*x))
		k1 := TruncRectPyramidParms{
			Size:       v3.Vec{w, l, k.CoverThickness},
			BaseAngle:  0.5*sdf.Pi - k.GrateDraft,
			BaseRadius: 0.5 * w,
		}
		slot, err := TruncRectPyramid3D(&k1)
		if err != nil {
			return nil, err
		}
		slots[i] = sdf.Transform3D(slot, sdf.Translate3d(v3.Vec{x, 0, -k.CoverThickness}))
		x += dx
	}

	return sdf.Transform3D(sdf.Union3D(slots...), sdf.MirrorXY()), nil
}

// dcGrate returns a grate with a crossbar
func dcGrateCrossBar(k *DrainCoverParms) (sdf.SDF3, error) {

	r := (0.5 * k.WallDiameter) - k.InnerWidth
	n := float64(k.GrateNumber)
	g := (2.0 * r) / (n + (n * k.GrateWidth) + 1.0)
	w := k.GrateWidth * g

	x := g + (0.5 * w) - r
	dx := g + w
	dy := 0.5 * k.InnerWidth * k.CrossBarWidth

	slots := make([]sdf.SDF3, k.GrateNumber)
	for i := 0; i < k.GrateNumber; i++ {
		l := math.Sqrt((r*r)-(x*x)) - dy
		y := dy + (0.5 * l)

		k1 := TruncRectPyramidParms{
			Size:       v3.Vec{w, l, k.CoverThickness},
			BaseAngle:  0.5*sdf.Pi - k.GrateDraft,
			BaseRadius: 0.5 * w,
		}
		slot, err := TruncRectPyramid3D(&k1)
		if err != nil {
			return nil, err
		}
		slots[i] = sdf.Transform3D(slot, sdf.Translate3d(v3.Vec{x, y, -k.CoverThickness}))
		x += dx
	}

	g0 := sdf.Transform3D(sdf.Union3D(slots...), sdf.MirrorXY())
	g1 := sdf.Transform3D(g0, sdf.MirrorXZ())

	return sdf.Union3D(g0, g1), nil
}

func dcCrossWeb(k *DrainCoverParms) (sdf.SDF3, error) {

	l := k.WallDiameter - (2.0 * k.WallThickness)
	x := k.WallHeight * 0.6
	y := k.WallThickness * 0.5
	dy := 0.5 * x * math.Tan(k.WallDraft)

	// build the 2d profile
	p := sdf.NewPolygon()
	p.Add(0, 0)
	p.Add(0, y+dy)
	p.Add(x, y-dy).Smooth(0.25*k.WallThickness, 4)
	p.Add(x, -y+dy).Smooth(0.25*k.WallThickness, 4)
	p.Add(0, -y-dy)

	s, err := sdf.Polygon2D(p.Vertices())
	if err != nil {
		return nil, err
	}

	web := sdf.Extrude3D(s, l)
	web = sdf.Transform3D(web, sdf.RotateY(sdf.DtoR(-90)))
	web = sdf.Transform3D(web, sdf.Translate3d(v3.Vec{0, 0, k.CoverThickness}))
	return web, nil
}

// DrainCover returns a grated drain pipe cover.
func DrainCover(k *DrainCoverParms) (sdf.SDF3, error) {

	body, err := dcBody(k)
	if err != nil {
		return nil, err
	}

	if k.CrossBarWeb && k.CrossBarWidth != 0 {
		web, err := dcCrossWeb(k)
		if err != nil {
			return nil, err
		}
		body = sdf.Union3D(body, web)
		body.(*sdf.UnionSDF3).SetMin(sdf.PolyMin(k.WallThickness))
	}

	var grate sdf.SDF3
	if k.CrossBarWidth == 0 {
		grate, err = dcGrate(k)
	} else {
		grate, err = dcGrateCrossBar(k)
	}
	if err != nil {
		return nil, err
	}

	return sdf.Difference3D(body, grate), nil
}

//-----------------------------------------------------------------------------
