//-----------------------------------------------------------------------------
/*

PCB Standoffs, Mounting Pillars

*/
//-----------------------------------------------------------------------------

package obj

import (
	"math"

	"github.com/deadsy/sdfx/sdf"
	v3 "github.com/deadsy/sdfx/vec/v3"
)

//-----------------------------------------------------------------------------

// StandoffParms defines the parameters for a board standoff pillar.
type StandoffParms struct {
	PillarHeight   float64
	PillarDiameter float64
	HoleDepth      float64 // > 0 is a hole, < 0 is a support stub
	HoleDiameter   float64
	NumberWebs     int // number of triangular gussets around the standoff base
	WebHeight      float64
	WebDiameter    float64
	WebWidth       float64
}

// pillarWeb returns a single pillar web
func pillarWeb(k *StandoffParms) (sdf.SDF3, error) {
	w := sdf.NewPolygon()
	w.Add(0, 0)
	w.Add(0.5*k.WebDiameter, 0)
	w.Add(0, k.WebHeight)
	p, err := sdf.Polygon2D(w.Vertices())
	if err != nil {
		return nil, err
	}
	s := sdf.Extrude3D(p, k.WebWidth)
	m := sdf.Translate3d(v3.Vec{0, 0, -0.5 * k.PillarHeight}).Mul(sdf.RotateX(sdf.DtoR(90.0)))
	return sdf.Transform3D(s, m), nil
}

// pillarWebs returns a set of pillar webs
func pillarWebs(k *StandoffParms) (sdf.SDF3, error) {
	if k.NumberWebs == 0 {
		// no webs
		return nil, nil
	}
	web, err := pillarWeb(k)
	if err != nil {
		return nil, err
	}
	return sdf.RotateCopy3D(web, k.NumberWebs), nil
}

// pillar returns a cylindrical pillar
func pillar(k *StandoffParms) (sdf.SDF3, error) {
	return sdf.Cylinder3D(k.PillarHeight, 0.5*k.PillarDiameter, 0)
}

// pillarHole returns a pillar screw hole (or support stub)
func pillarHole(k *StandoffParms) (sdf.SDF3, error) {
	if k.HoleDiameter == 0.0 || k.HoleDepth == 0.0 {
		// no hole
		return nil, nil
	}
	s, err := sdf.Cylinder3D(math.Abs(k.HoleDepth), 0.5*k.HoleDiameter, 0)
	if err != nil {
		return nil, err
	}
	zOfs := 0.5 * (k.PillarHeight - k.HoleDepth)
	return sdf.Transform3D(s, sdf.Translate3d(v3.Vec{0, 0, zOfs})), nil
}

// Standoff3D returns a single board standoff.
func Standoff3D(k *StandoffParms) (sdf.SDF3, error) {
	pillar, err := pillar(k)
	if err != nil {
		return nil, err
	}
	webs, err := pillarWebs(k)
	if err != nil {
		return nil, err
	}
	s := sdf.Union3D(pillar, webs)
	if k.NumberWebs != 0 {
		// Cut off any part of the webs that protrude from the top of the pillar
		cut, err := sdf.Cylinder3D(k.PillarHeight, k.WebDiameter, 0)
		if err != nil {
			return nil, err
		}
		s = sdf.Intersect3D(s, cut)
	}
	// Add the pillar hole/stub
	hole, err := pillarHole(k)
	if err != nil {
		return nil, err
	}
	if k.HoleDepth >= 0.0 {
		s = sdf.Difference3D(s, hole)
	} else {
		// support stub
		s = sdf.Union3D(s, hole)
	}
	return s, nil
}

//-----------------------------------------------------------------------------
