//-----------------------------------------------------------------------------
/*

Servo Models

See: https://www.servocity.com/servos/

Note: Servos fall into several well known size categories. In general you could
design for this nominal size but you need to check the final fit against the specific
servo being used. There is dimensional variance within and across manufacturers.

*/
//-----------------------------------------------------------------------------

package obj

import (
	"fmt"

	"github.com/deadsy/sdfx/sdf"
	v2 "github.com/deadsy/sdfx/vec/v2"
	v3 "github.com/deadsy/sdfx/vec/v3"
)

//-----------------------------------------------------------------------------

// ServoParms stores the parameters that define the servo.
type ServoParms struct {
	Body        v3.Vec  // body size
	Mount       v3.Vec  // mounting lugs size
	Hole        v2.Vec  // hole layout
	MountOffset float64 // z-offset of mounting lugs (from base of servo)
	ShaftOffset float64 // x-offset of drive shaft (from mounting hole center to shaft)
	ShaftLength float64
	ShaftRadius float64
	HoleRadius  float64
}

type servoDatabase map[string]ServoParms

var servoDB = initServoLookup()

func (m servoDatabase) Add(name string, k *ServoParms) {
	m[name] = *k
}

// initServoLookup adds a collection of named servos to the database.
func initServoLookup() servoDatabase {
	m := make(servoDatabase)

	k := ServoParms{
		Body:        v3.Vec{20, 8.7, 20.3},
		Mount:       v3.Vec{28, 8.7, 1},
		Hole:        v2.Vec{24, 0},
		MountOffset: 12,
		ShaftOffset: 6.4,
		ShaftLength: 2.8,
		ShaftRadius: 1.4,
		HoleRadius:  1,
	}
	m.Add("hitec_hs_40", &k)
	m.Add("nano", &k)

	k = ServoParms{
		Body:        v3.Vec{22.6, 11.5, 24.5},
		Mount:       v3.Vec{32.6, 10.4, 1},
		Hole:        v2.Vec{28.5, 0},
		MountOffset: 16.6,
		ShaftOffset: 9,
		ShaftLength: 2.5,
		ShaftRadius: 1.25,
		HoleRadius:  0.95,
	}
	m.Add("hitec_hs_55", &k)
	m.Add("submicro", &k)

	k = ServoParms{
		Body:        v3.Vec{29.1, 13, 30.4},
		Mount:       v3.Vec{40, 12, 2},
		Hole:        v2.Vec{35.6, 0},
		MountOffset: 19,
		ShaftOffset: 9.8,
		ShaftLength: 3.8,
		ShaftRadius: 1.9,
		HoleRadius:  2.25,
	}
	m.Add("hitec_hs_85bb", &k)
	m.Add("micro", &k)

	k = ServoParms{
		Body:        v3.Vec{32.3, 16.8, 33},
		Mount:       v3.Vec{44.3, 16, 2.2},
		Hole:        v2.Vec{39.6, 7.9},
		MountOffset: 23.5,
		ShaftOffset: 12.2,
		ShaftLength: 3.3,
		ShaftRadius: 1.65,
		HoleRadius:  2.25,
	}
	m.Add("hitec_hs_225bb", &k)
	m.Add("mini", &k)

	k = ServoParms{
		Body:        v3.Vec{40.2, 20.2, 38.3},
		Mount:       v3.Vec{52.9, 20.2, 2.5},
		Hole:        v2.Vec{47.6, 10.1},
		MountOffset: 26.5,
		ShaftOffset: 13.85,
		ShaftLength: 3.5,
		ShaftRadius: 1.75,
		HoleRadius:  2.15,
	}
	m.Add("hitec_hs_311", &k)
	m.Add("standard", &k)

	k = ServoParms{
		Body:        v3.Vec{40, 20, 41.5},
		Mount:       v3.Vec{54.2, 18.5, 3},
		Hole:        v2.Vec{49.5, 10},
		MountOffset: 28,
		ShaftOffset: 14.75,
		ShaftLength: 4.2,
		ShaftRadius: 2.1,
		HoleRadius:  2.15,
	}
	m.Add("annimos_ds3218", &k)

	k = ServoParms{
		Body:        v3.Vec{65.9, 29.9, 59.3},
		Mount:       v3.Vec{82.9, 29.9, 4},
		Hole:        v2.Vec{74.9, 17.8},
		MountOffset: 42,
		ShaftOffset: 18.9,
		ShaftLength: 5.4,
		ShaftRadius: 2.7,
		HoleRadius:  2.8,
	}
	m.Add("hitec_hs_805bb", &k)
	m.Add("large", &k)

	k = ServoParms{
		Body:        v3.Vec{64, 33, 73.3},
		Mount:       v3.Vec{88, 33, 4},
		Hole:        v2.Vec{76, 21},
		MountOffset: 53.3,
		ShaftOffset: 20.6,
		ShaftLength: 7.6,
		ShaftRadius: 3.8,
		HoleRadius:  3,
	}
	m.Add("hitec_hs_1005sgt", &k)
	m.Add("giant", &k)

	return m
}

// ServoLookup returns the parameters for a named servo.
func ServoLookup(name string) (*ServoParms, error) {
	k, ok := servoDB[name]
	if !ok {
		return nil, fmt.Errorf("servo \"%s\" not found", name)
	}
	return &k, nil
}

//-----------------------------------------------------------------------------

// Servo3D returns a 3D model for a servo.
func Servo3D(k *ServoParms) (sdf.SDF3, error) {

	// servo body
	body, err := sdf.Box3D(k.Body, 0.06*k.Body.Y)
	if err != nil {
		return nil, err
	}

	// mounting lugs
	m := sdf.Box2D(v2.Vec{k.Mount.X, k.Mount.Y}, 0.1*k.Mount.Y)
	mount := sdf.Extrude3D(m, k.Mount.Z)
	zOfs := k.MountOffset - 0.5*(k.Body.Z-k.Mount.Z)
	mount = sdf.Transform3D(mount, sdf.Translate3d(v3.Vec{0, 0, zOfs}))

	// output shaft
	shaft, err := sdf.Cylinder3D(k.ShaftLength, k.ShaftRadius, 0)
	if err != nil {
		return nil, err
	}
	xOfs := 0.5*k.Hole.X - k.ShaftOffset
	zOfs = 0.5 * (k.Body.Z + k.ShaftLength)
	shaft = sdf.Transform3D(shaft, sdf.Translate3d(v3.Vec{-xOfs, 0, zOfs}))

	// holes
	hole, err := sdf.Cylinder3D(k.Body.Z, k.HoleRadius, 0)
	if err != nil {
		return nil, err
	}
	xOfs = 0.5 * k.Hole.X
	yOfs := 0.5 * k.Hole.Y
	holes := sdf.Multi3D(hole, []v3.Vec{{xOfs, yOfs, 0}, {-xOfs, yOfs, 0}, {xOfs, -yOfs, 0}, {-xOfs, -yOfs, 0}})

	s := sdf.Difference3D(sdf.Union3D(body, mount, shaft), holes)

	// position the shaft on the z-axis and the bottom of the servo at z=0
	xOfs = 0.5*k.Hole.X - k.ShaftOffset
	zOfs = 0.5 * k.Body.Z
	s = sdf.Transform3D(s, sdf.Translate3d(v3.Vec{xOfs, 0, zOfs}))

	return s, nil
}

//-----------------------------------------------------------------------------

// Servo2D returns a 2D cutout model for servo mounting.
func Servo2D(k *ServoParms, holeRadius float64) (sdf.SDF2, error) {

	if holeRadius < 0 {
		holeRadius = k.HoleRadius
	}

	const clearance = 1.0 // mounting hole clearance

	// servo body
	body := sdf.Box2D(v2.Vec{k.Body.X + clearance, k.Body.Y + clearance}, 0)

	// holes
	hole, err := sdf.Circle2D(holeRadius)
	if err != nil {
		return nil, err
	}
	xOfs := 0.5 * k.Hole.X
	yOfs := 0.5 * k.Hole.Y
	holes := sdf.Multi2D(hole, []v2.Vec{{xOfs, yOfs}, {-xOfs, yOfs}, {xOfs, -yOfs}, {-xOfs, -yOfs}})

	s := sdf.Union2D(body, holes)

	// position the shaft at the origin
	xOfs = 0.5*k.Hole.X - k.ShaftOffset
	s = sdf.Transform2D(s, sdf.Translate2d(v2.Vec{xOfs, 0}))

	return s, nil
}

//-----------------------------------------------------------------------------

// ServoHornParms stores the parameters that define a servo horn.
type ServoHornParms struct {
	CenterRadius float64 // radius of center hole
	NumHoles     int     // numer of mount holes
	CircleRadius float64 // radius of bolt circle
	HoleRadius   float64 // radius of mount hole
}

// ServoHorn returns a 2D cutout model for a servo horn nount.
func ServoHorn(k *ServoHornParms) (sdf.SDF2, error) {
	if k.CenterRadius < 0 {
		return nil, sdf.ErrMsg("CenterRadius < 0")
	}
	if k.NumHoles < 0 {
		return nil, sdf.ErrMsg("NumHoles < 0")
	}
	if k.CircleRadius < 0 {
		return nil, sdf.ErrMsg("CircleRadius < 0")
	}
	if k.HoleRadius < 0 {
		return nil, sdf.ErrMsg("HoleRadius < 0")
	}

	var s sdf.SDF2

	if k.CenterRadius > 0 {
		h, err := sdf.Circle2D(k.CenterRadius)
		if err != nil {
			return nil, err
		}
		s = sdf.Union2D(s, h)
	}

	if k.NumHoles > 0 && k.CircleRadius > 0 && k.HoleRadius > 0 {
		h, err := BoltCircle2D(k.HoleRadius, k.CircleRadius, k.NumHoles)
		if err != nil {
			return nil, err
		}
		s = sdf.Union2D(s, h)
	}

	return s, nil
}

//-----------------------------------------------------------------------------
