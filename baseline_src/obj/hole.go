//-----------------------------------------------------------------------------
/*

Holes

*/
//-----------------------------------------------------------------------------

package obj

import (
	"github.com/deadsy/sdfx/sdf"
	v2 "github.com/deadsy/sdfx/vec/v2"
	v3 "github.com/deadsy/sdfx/vec/v3"
)

//-----------------------------------------------------------------------------

// CounterBoredHole3D returns the SDF3 for a counterbored hole.
func CounterBoredHole3D(
	l float64, // total length (includes counterbore)
	r float64, // hole radius
	cbRadius float64, // counter bore radius
	cbDepth float64, // counter bore depth
) (sdf.SDF3, error) {
	s0, err := sdf.Cylinder3D(l, r, 0)
	if err != nil {
		return nil, err
	}
	s1, err := sdf.Cylinder3D(cbDepth, cbRadius, 0)
	if err != nil {
		return nil, err
	}
	s1 = sdf.Transform3D(s1, sdf.Translate3d(v3.Vec{0, 0, (l - cbDepth) * 0.5}))
	return sdf.Union3D(s0, s1), nil
}

// ChamferedHole3D returns the SDF3 for a chamfered hole (45 degrees).
func ChamferedHole3D(
	l float64, // total length (includes chamfer)
	r float64, // hole radius
	chRadius float64, // chamfer radius
) (sdf.SDF3, error) {
	s0, err := sdf.Cylinder3D(l, r, 0)
	if err != nil {
		return nil, err
	}
	s1, err := sdf.Cone3D(chRadius, r, r+chRadius, 0)
	if err != nil {
		return nil, err
	}
	s1 = sdf.Transform3D(s1, sdf.Translate3d(v3.Vec{0, 0, (l - chRadius) * 0.5}))
	return sdf.Union3D(s0, s1), nil
}

// CounterSunkHole3D returns the SDF3 for a countersunk hole (45 degrees).
func CounterSunkHole3D(
	l float64, // total length
	r float64, // hole radius
) (sdf.SDF3, error) {
	return ChamferedHole3D(l, r, r)
}

//-----------------------------------------------------------------------------

// BoltCircle2D returns a 2D profile for a flange bolt circle.
func BoltCircle2D(
	holeRadius float64, // radius of bolt holes
	circleRadius float64, // radius of bolt circle
	numHoles int, // number of bolts
) (sdf.SDF2, error) {
	s, err := sdf.Circle2D(holeRadius)
	if err != nil {
		return nil, err
	}
	s = sdf.Transform2D(s, sdf.Translate2d(v2.Vec{circleRadius, 0}))
	s = sdf.RotateCopy2D(s, numHoles)
	return s, nil
}

// BoltCircle3D returns a 3D object for a flange bolt circle.
func BoltCircle3D(
	holeDepth float64, // depth of bolt holes
	holeRadius float64, // radius of bolt holes
	circleRadius float64, // radius of bolt circle
	numHoles int, // number of bolts
) (sdf.SDF3, error) {
	s, err := BoltCircle2D(holeRadius, circleRadius, numHoles)
	if err != nil {
		return nil, err
	}
	return sdf.Extrude3D(s, holeDepth), nil
}

//-----------------------------------------------------------------------------
