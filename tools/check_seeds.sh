#!/bin/sh
# Apply every kept seeded (property-breaking) change to a scratch copy of /repo in turn and run
# the property's check on it: every one must be reported.
# Usage: tools/check_seeds.sh [-j N] [id ...]
cd /verif
export GOFLAGS=-mod=mod GOPROXY=off GOSUMDB=off GOTOOLCHAIN=local
J=3
if [ "$1" = "-j" ]; then J=$2; shift 2; fi
if [ "$1" = "--one" ]; then
  id=$2
  prop=$(python3 -c "import json;print(json.load(open('seeded/$id/meta.json'))['property'])")
  tier=$(python3 -c "import json;print(json.load(open('seeded/$id/meta.json')).get('tier','quick'))")
  S=/var/tmp/verif-seed.$$
  trap 'rm -rf $S' EXIT
  mkdir -p $S
  rsync -a --exclude .git --exclude examples --exclude docs --exclude files /repo/ $S/r/
  if ! (cd $S/r && patch -p1 -s < /verif/seeded/$id/patch.diff); then echo "ERROR $id: patch does not apply"; exit 1; fi
  out=$(./check $prop --tier $tier --repo $S/r --no-evidence 2>&1); ec=$?
  if [ $ec -eq 1 ] && echo "$out" | grep -q "VIOLATION property=$prop"; then
    echo "caught $id [$prop/$tier]: $(echo "$out" | grep -m1 'refuted obligation\|no longer\|missing' | cut -c1-150)"
    exit 0
  fi
  echo "MISSED $id [$prop/$tier] exit=$ec carried=$(echo "$out" | grep -c '^carried over')"
  exit 1
fi
ids="$*"; [ -z "$ids" ] && ids=$(ls seeded)
echo $ids | tr ' ' '\n' | xargs -P $J -I{} $0 --one {} | sort -k2
