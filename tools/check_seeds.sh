#!/bin/sh
# Apply every kept seeded change to /repo in turn, run the property's quick check, undo.
# Usage: tools/check_seeds.sh [id ...]    (needs a clean /repo working tree)
cd /verif
if [ -n "$(git -C /repo status --porcelain)" ]; then echo "/repo working tree is not clean"; exit 2; fi
ids="$*"; [ -z "$ids" ] && ids=$(ls seeded)
rc=0
for id in $ids; do
  prop=$(python3 -c "import json;print(json.load(open('seeded/$id/meta.json'))['property'])")
  tier=$(python3 -c "import json;print(json.load(open('seeded/$id/meta.json')).get('tier','quick'))")
  if ! git -C /repo apply /verif/seeded/$id/patch.diff; then echo "ERROR $id: patch does not apply"; rc=1; continue; fi
  out=$(./check $prop --tier $tier --no-evidence 2>&1); ec=$?
  git -C /repo checkout -- . ; git -C /repo clean -fdq
  if [ $ec -eq 1 ] && echo "$out" | grep -q "VIOLATION property=$prop"; then
    echo "caught $id [$prop/$tier]: $(echo "$out" | grep -m1 'refuted obligation\|VIOLATION' | cut -c1-160)"
  else
    echo "MISSED $id [$prop/$tier] exit=$ec"; rc=1
  fi
done
exit $rc
