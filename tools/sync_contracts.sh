#!/bin/sh
# copy the contract mirror into /repo (the engine reads the /repo copies)
for p in sdf render obj; do
  if [ -f /verif/contracts/${p}_verif_contracts.go ]; then cp /verif/contracts/${p}_verif_contracts.go /repo/$p/verif_contracts.go; fi
done
exit 0
