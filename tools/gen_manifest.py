#!/usr/bin/env python3
# Generates /verif/MANIFEST.json from the table below (kept valid at all times).
import json, subprocess, os

LEVEL_NOTE = ("float64 read as exact reals (no NaN/Inf/rounding), integers mathematical, math.* by the axioms of DESIGN.md 3.5, "
              "govc (own SSA symbolic executor + VC generator) and the SMT solvers trusted; third-party packages by assumed contracts; "
              "every remaining assumption is listed in the evidence file's 'assumptions'.")

claimed = {
 "C01": dict(
   text="Deductive proof, per constructor, of the induction step of 'every expression tree has an enclosing box': with abstract operands assumed only to have an ordered box enclosing their solid (plus the stated Chebyshev lower bound for Offset/Shell/rounded extrusions), the box stored by the real constructor is ordered and contains every point where the real Evaluate of the result is negative, for all parameters and all points. Union2D / Union3D are proved for ANY number of operands (a symbolic array of abstract shapes, nil operands stripped, loop invariants; the union's Evaluate is seen through its separately proved contract 'the result is the value of one operand'). Array2D / Array3D are proved for any grid size (nested loop invariants with existential witnesses: the array's value is the operand's value at the point moved back by one grid offset, and every such copy lies in the hull of the first and the last copy's box). Rotate-unions: the constructors are proved to store the inverse step and to move the operand box's corners by the step itself each round (aggregate-valued recursive spec function), and Evaluate to return the operand's value at the point moved by one of the first num powers of the stored step; that the box is the hull of all those corner images and that this hull encloses every copy (inverse powers, convexity) is not_decided. Constructors not under contract (screw, text, obj parts, cams, gears) are listed in the evidence as not_decided.",
   design_ref="8.1",
   technique="contract-based deductive verification: constructor and Evaluate executed symbolically from go/ssa with uninterpreted operands, quantified operand assumptions instantiated at evaluation points, proof scripts (assert/use/generalize), SMT (QF_NRA)"),
 "C02": dict(
   text="Deductive proof per combinator that the real Evaluate/constructor code denotes the named operation, for all parameters and points: blend functions (RoundMin, ChamferMin, ExpMin, PolyMin/PolyMax) never remove material, are symmetric and obey the k/4 fillet bound; M22/M33/M44.Inverse are two-sided inverses; rotation constructors are rigid. n-ary unions: UnionSDF2.EvaluateSlow and UnionSDF3.Evaluate are the left fold of the installed minimum function over all operands in order (recursive spec function, loop invariant), and with the plain minimum the result is <= every operand's value and equal to one of them. Scope grows with the contract file; sentences not under contract are listed in the evidence as not_decided.",
   design_ref="8.2",
   technique="contract-based deductive verification: per-path VCs from go/ssa symbolic execution with abstract (uninterpreted) operands, discharged by SMT (QF_NRA + axiomatised exp/log/trig)"),
 "C03": dict(
   text="Deductive proof that the real Evaluate of sphere, circle, (rounded) box 2D/3D, line, (rounded) cylinder and capsule equals the independent closed-form Euclidean signed distance at every point, and that union/intersection/difference (plain and with the polynomial blend), cut, offset, shell, elongate, plain extrusion, full revolution and uniform scale preserve the two-point 1-Lipschitz property of abstract operands. Union3D, and Union2D with its box pruning (under the operand box assumption), preserve it for ANY number of operands (loop invariants over a symbolic array of shapes). EXACT => LIP for primitives, the cone, polygons, rotate-copy/union, arrays, rounded extrusion and partial revolution are not yet under contract (not_decided).",
   design_ref="8.3",
   technique="contract-based deductive verification: per-path VCs against independent spec functions; two-point Lipschitz contracts with quantified operand assumptions instantiated at evaluation points; lemma library (Lagrange identity, sup-norm Lipschitz of the polynomial blend) proved in the same run"),
 "C04": dict(
   text="Reduced scope, proved per function for all inputs: a segment record built by newLineInfo describes its segment (unit direction, length, end point = start + length*direction) for non-degenerate segments and newLineInfo is the only writer of such records; lineInfo.minDistance2 is exactly the squared distance to the nearest point of the segment (equal to the clamped-projection point, not larger than the distance to any point of the segment); lineInfo.winding is exactly the half-open crossing rule of the property (+1 iff a.y <= p.y < b.y and p strictly left, -1 iff b.y <= p.y < a.y and p strictly right, else 0) and that 'strictly left' is 'the edge meets the horizontal through p to the right of p'; the brute-force reference returns sqrt of the minimum of those distances (recursive spec function, loop invariant) with a negative sign exactly when the sum of the crossing increments is non-zero; the quadtree side by recursion-by-contract: minBoxDist2 is the squared distance to the node's square and a lower bound for every point of it, searchOrder is a permutation of the four children starting with the quadrant of p, minLeafDist2 is the minimum over the leaf (lower bound for every segment and attained by one), minDist2 prunes only boxes no nearer than the bound so far, measures a leaf, and otherwise searches each child exactly once in search order threading the best distance, winding sums the crossing increments of a leaf and otherwise descends exactly into the children of p's row that are not left of p; lemmas: a piece inside a box of another row, or entirely left of p, contributes no crossing, a box no nearer than the bound holds no nearer segment, the four quadrants tile the square about its centre; construction: lineIntersect keeps only pieces with both end points in the box, keeps direction, gives a horizontal segment on the top edge / vertical segment on the right edge to the neighbouring box and keeps a contained segment whole; lineFilter, convertLines, qtBuild (nil iff no segments, leaf iff one segment or level 3 with one record per segment, else four children over the four quadrants each given the segments clipped to its quadrant), Mesh2D (bounding box holds every end point, one tree over a square containing it), VertexToLine (consecutive pairs, closing edge) and Polygon2D. NOT decided: that the clipped pieces of a segment partition it exactly (lineIntersect snaps with a 1e-9 tolerance, so this holds only approximately), hence the whole-tree equality fast == slow, the induction over tree depth (prose), and the Jordan-curve step from winding number to 'enclosed'.",
   design_ref="8.4",
   technique="contract-based deductive verification: per-path VCs from go/ssa, recursion by contract with calls recorded in a ghost log, loop invariants with existential witnesses and recursively defined spec functions (unfolded on demand), object regions for pointer-linked data with a record invariant justified by a sole-writer (frame) obligation, stand-alone geometric lemmas; SMT (QF_NRA)"),
 "C05": dict(
   text="Proof obligations over the real tables and the real cell code: (a) edge-table bits are exactly the sign changes and triangle rows name exactly the crossing edges, (b) interior directed edges cancel within every one of the 256 configurations, (c) for all 3 x 4096 face-adjacent configuration pairs the net face segments of one cell are the reverses of the neighbour's, (d) face segments have the solid corner on the same side as the single-corner anchor whose normal points to the void; mcToTriangles is shown by symbolic execution (corner coordinates and values symbolic, all 256 sign patterns x all degeneracy outcomes) to return exactly the table's triangles with the table's winding minus the ones its degeneracy test rejects; mcInterpolate lies on the lattice edge, is the linear zero crossing, and is symmetric in its end points (so neighbouring cells compute the identical vertex); Degenerate(0) holds iff two vertices coincide. The gluing argument from these lemmas to 'closed oriented surface' is prose (A8(ii)); caller corner/value pairing and padding are not yet under contract.",
   design_ref="8.5",
   technique="contract-based deductive verification: exhaustive ground lemmas over tables read from the working tree's init + symbolic execution of the cell code against the table specification + SMT-discharged contracts on interpolation"),
 "C06": dict(
   text="Reduced scope, proved: (1) every vertex the cell code creates lies on its lattice edge, is the linear zero crossing of the two corner values (exactly, off the 1e-12 snapping branches; a corner when snapped), so for an affine field f(v)=0 in real arithmetic; (2) for any 1-Lipschitz field |f(v)| <= h (edge length) - lemma over the real mcInterpolate; (3) value/coordinate pairing: marchingCubes hands each cell its eight corner coordinates base+(x,y,z)*inc in table order together with the cached values at exactly those lattice indices (layer index formula proved), the lattice has ceil(size/step) >= 1 cells per axis of size <= step that tile the box exactly; the octree/quadtree leaves pair corners and values likewise (C07); in 2D the whole chain is proved down to the field: the line cache holds the shape's values at its lattice points and marchingSquares hands msToLines the shape's values at the four corner points. NOT proved here: that layerYZ.Evaluate's batched concurrent evaluation fills the 3D layer correctly (trusted summary), the sphere bound h^2/(8(R-h)), Hausdorff distance both ways, normals vs gradient, second-order volume convergence (not_decided).",
   design_ref="8.6",
   technique="contract-based deductive verification: loop invariants and per-iteration obligations over a ghost log of summarised calls, modular contracts with frame (havoc) clauses, lemma with proof script for the Lipschitz bound"),
 "C07": dict(
   text="For both the octree (march3x.go) and the quadtree (march2x.go): proved that the distance cache returns the lattice point and the shape's value there and keeps the invariant 'every cached entry is the shape's value at its key' (symbolic map); that the half-diagonal table holds 1/2*sqrt(D)*2^i*resolution; the pruning lemma - for a 1-Lipschitz field, isEmpty(c) implies that at every point of the cube the field has the sign of the centre value (so no lattice cell inside changes sign); and the one-level contract of processCube/processSquare - a pruned cube emits and visits nothing, a finest cube emits exactly the cell of its 2^D lattice corners in table order with the shape's values at those corners, a coarser cube visits each of its 2^D children (origin + 2^(n-1)*delta, level n-1) exactly once and nothing else, recursive calls being summarised by the same contract. The induction over depth, the empty-leaf lemma for all-non-negative / zero-at-a-corner cells and the top-level sizing are prose / not_decided.",
   design_ref="8.7",
   technique="contract-based deductive verification: data-structure invariant over a symbolic map, quantified table invariant, proof scripts (assert/generalize/focus) for the Lipschitz pruning lemma, recursion by contract with calls recorded in a ghost log"),
 "C08": dict(
   text="Same structure as C05 in 2D: msEdgeTable bits are the sign changes; in every one of the 16 configurations each crossing edge is an end point of exactly one segment and non-crossing edges of none (degree 2 after gluing, two disjoint segments for saddles); msToLines is shown by symbolic execution to emit exactly the table's segments minus those whose end points coincide; msInterpolate is on the edge, the linear zero crossing, symmetric. Caller pairing, circle bound and perimeter convergence are not_decided.",
   design_ref="8.8",
   technique="contract-based deductive verification: exhaustive ground lemmas over tables + symbolic execution of msToLines + SMT-discharged interpolation contracts"),
 "C11": dict(
   text="Data-structure contracts over an abstract view (batches sent so far ++ buffer) proved for Triangle3Buffer/Line2Buffer Write, Close and constructors for all input and buffer lengths and contents (symbolic slices): Write appends its input in order, flushes exactly one batch holding buffered ++ input when the threshold is reached, and continues with a fresh backing array; Close flushes the remainder; every buf access is under the mutex (guarded_by). The in-memory collector and the STL writers are proved, by loop invariants, to handle each received batch element exactly once in order (count incremented once per triangle). Channel delivery itself (FIFO, exactly once) and scheduling are assumed (A6); 3MF/DXF/SVG consumers are covered by C15's contracts.",
   design_ref="8.11",
   technique="contract-based deductive verification: view contracts over symbolic slices with Ackermannised selects, ghost event log, loop invariants with pre-state, lock-discipline obligations from SSA"),
 "C13": dict(
   text="Proved: STLHeader/STLTriangle have the 84/50-byte packed layouts and field order the format requires (from go/types); SaveSTL writes one header carrying uint32(len(mesh)) and then exactly one record per triangle, in order, whose Vertex1..3 are the triangle's vertices component by component and whose Normal is Triangle3.Normal(), then flushes; Normal is unit, perpendicular to both edges and right-handed for non-degenerate triangles; the streaming writer writes the same record per received triangle, counts each once (mod 2^32), and on success flushes, seeks to 0 and rewrites the header with that count; loadSTLBinary maps record i's Vertex1..3 to mesh[i][0..2]. Bytes produced by encoding/binary and float32 rounding are assumed (A1, A6); loadSTLAscii returns one triangle per three 'vertex' lines, in file order and winding, and an error when their number is not a multiple of three (which lines count and how their numbers parse is the external scanner / strconv, A6).",
   design_ref="8.13",
   technique="contract-based deductive verification: per-iteration (body) obligations over a ghost log of external calls recorded by value, loop invariants, SMT (NRA for the normal)"),
 "C14": dict(
   text="Safety contracts on parseFloats, loadSTLAscii, loadSTLBinary and LoadSTL: every index, slice bound, nil dereference, make size and panic instruction of the real code is an obligation proved for arbitrary results of the external file / scanner / parser calls (all file contents), callers see callees by contract, and loadSTLBinary is proved to be called only when the file size equals 84 + 50*count (allocation proportional to the file). Loop termination is not checked (not_decided).",
   design_ref="8.14",
   technique="contract-based deductive verification in safety mode: one obligation per index/slice/make/panic instruction from go/ssa, loops cut at invariants, external calls havocked, SMT (LIA)"),
 "C10": dict(
   text="Frame contract 'assigns nothing' proved for every Evaluate/BoundingBox method of every type implementing SDF2/SDF3 (found mechanically from go/types), transitively through all module callees and function-valued fields, with a lock-discipline alternative (writes and all accesses to the written fields only under the receiver's mutex). Race freedom then follows from the Go memory model (reads of memory nobody writes do not race); interleavings themselves are not explored.",
   design_ref="8.10",
   technique="contract-based frame (assigns) and lock-discipline obligations decided by an SSA may-write analysis over the real code"),
 "C17": dict(
   text="Reduced scope, proved per function for all inputs: the vertex marks (Rel, Polar = (r cos t, r sin t), Smooth, Chamfer = one-facet fillet of radius size*sqrt(1/2), Arc; zero radius/facets change nothing; position and the other marks kept); relToAbs (every relative vertex becomes its offset plus the already resolved previous vertex, marks kept, no error when the first vertex is absolute); nextVertex/prevVertex (ring successor/predecessor, nil at an open end); Nagon (n < 3 -> nil, else n vertices, the first (r,0), all on the circle of that radius, each the previous one turned by 2*pi/n); Vertices (one point per vertex after the fix-ups, in list order or reversed); smoothVertex structure (false leaves the list untouched; true only for marked vertices, replaces exactly that vertex by facets+1 plain absolute points, keeps everything before and after in order, the new points all lie on ONE circle about the fillet centre c, the first is the tangent point p0 = v + d1*unit(prev - v) with d1 not beyond either edge, c = v + d2*unit(unit(prev-v)+unit(next-v))); arcVertex structure (facets-1 plain points inserted before the arc end, all at the previous vertex's distance from the arc centre, the centre on the chord's perpendicular bisector line, the arc end becomes plain, everything else kept); BezierPolynomial.Set stores the power-basis coefficients of the control points for 1..5 points (each exact or zeroed when below 1e-12 of the coefficient sum), order = highest remaining coefficient; lemma: those coefficients ARE the Bernstein form for degree 1..4 at every t (so the end control points are f(0) and f(1) and a degree-1 span is the straight line); f0 is Horner evaluation; BezierSpline.f0 pairs the x and y polynomials; Sample by recursion-by-contract: given p0 = f(t0), p1 = f(t1), t0 < t1 it either emits the span (p0 only when t0 == 0, then p1) or halves it at (t0+t1)/2 with the curve point there, first half first, one level deeper, at most to depth 9 - hence every emitted vertex is a curve point, parameters increase, the first is f(0) and the last f(1) (induction over depth is prose); NewBezierSpline feeds the x and the y coordinates of the control points in order to the two polynomials. fillet geometry on the real code (proof script applying the lemma fillet_circle_touches_both_edges): for a corner that is neither straight nor folded back the tangent point is at exactly the given radius from the centre, the radius there is perpendicular to the previous edge, and the point at the same tangent length on the next edge is also at that radius with the radius perpendicular to that edge - so the circle has the given radius and touches both edges (uses acos, the double-angle axioms for the half angle and the quadrant signs); Bezier handles (Mid, HandleFwd/HandleRev store (|r|, theta), Handle stores the forward handle along theta and the reverse one along theta + pi). NOT decided: that the LAST fillet point is the tangent point on the next edge and that the facets are equally spaced (needs the angle-sum identity over a symbolic number of rotations), the arc's side selection and that the arc ends at the arc end, Bezier.handles/closure/Polygon bookkeeping, createArcs/smoothVertices termination.",
   design_ref="8.17",
   technique="contract-based deductive verification: per-path VCs from go/ssa over symbolic slices, loop invariants with the loop-invariant locals abstracted (forget) so that rotation-preserves-length is a small polynomial identity (discharged by cvc5), recursion by contract with a ghost call log, polynomial-identity lemma; SMT (QF_NRA, sin/cos uninterpreted with sin^2+cos^2=1)"),
 "C18": dict(
   text="Proved: every one of the database's entries, read from the map the real package initialiser builds (executed symbolically), agrees exactly with an independent parse of its designation (metric MdxP -> d/2 and P; unified -> diameter/2 and 1/TPI with the gauge-number and UNC/UNF standard tables; NPT -> OD table, 1/TPI and taper atan(1/32)), names match keys, no designation is added twice; ToMillimetre scales the three lengths by 25.4, keeps angle and name, returns metric input unchanged and always yields a metric result (hence idempotent); SawTooth returns a value in [-T/2, T/2) differing from x by an integer multiple of T and is T-periodic; Screw3D stores lead = -pitch*starts (handedness pinned) and the untapered screw evaluates the thread profile at (SawTooth(z + lead*atan2(y,x)/tau, pitch), rho) intersected with the length slab, so its thread term is pitch-periodic in z. Helical invariance beyond that and 'the generated nut fits the bolt' are not_decided.",
   design_ref="8.18",
   technique="contract-based deductive verification: exhaustive exact check of the initialiser-built table against an independent designation parser + SMT-discharged contracts and lemmas (mixed integer/real arithmetic with floor)"),
 "C20": dict(
   text="Deductive proof that TriangleIByIndex.Less is the lexicographic order (hence a strict weak order, total on distinct triples, which sort.Sort and Equals need), that TriangleI.Canonical returns the rotation with the minimum first, and that rotations canonicalise identically; the circumcircle predicate of the insertion: Triangle2.Circumcenter is equidistant from the three vertices (exactly, off the 1e-12 'nearly horizontal' branches), InCircumcircle's 'inside' is 'within the circumradius up to epsilon' and its 'done' early-out is sound (no point further along x can be inside); the global Bowyer-Watson correctness sentence is not claimed (not_decided).",
   design_ref="8.20",
   technique="contract-based deductive verification: VCs over symbolic slices (Ackermannised selects) and integers from go/ssa, discharged by SMT (LIA)"),
 "C15": dict(
   text="Our side of the library boundary, proved as contracts over a ghost log of external calls (arguments recorded by value): toPoint3D keeps the axis order; the 3MF consumer issues, per received triangle, AddVertex(P(t0)), AddVertex(P(t1)), AddVertex(P(t2)) in that order and appends Triangle{V1,V2,V3} holding the three returned indices (winding kept), keeping earlier triangles; NewDXF creates layers Lines and Points; SaveDXF and the DXF consumer select layer Lines once before and never inside the loop and issue exactly one Line(p0.X,p0.Y,0,p1.X,p1.Y,0) per segment in order, then save; SVG.Line appends the segment and updates the extent to the exact componentwise min/max; SVG.Save issues Start(max.X-min.X, max.Y-min.Y), then per segment in order Line(p0.X-min.X, max.Y-p0.Y, p1.X-min.X, max.Y-p1.Y, style), then End and Close; SaveSVG/the SVG consumer feed each segment's end points in order. What go3mf, yofu/dxf and svgo write for those calls (zip, decimals, de-duplication, group codes) is ASSUMED (A6): no independent reader is involved.",
   design_ref="8.15",
   technique="contract-based deductive verification: per-iteration obligations over a by-value ghost log of external library calls, loop invariants over symbolic slices"),
 "C16": dict(
   text="Deductive proof, for all boxes and points, that Box2/Box3.MinMaxDist2 of the real code equal the clamp / farthest-corner oracle, and that Interval.Overlap holds iff the intervals share a value; that the box-pruned UnionSDF2.Evaluate, for ANY number of operands (loop invariants with an existential witness over a symbolic array of abstract shapes) and the plain minimum, returns a value that no operand undercuts and that is one operand's value - i.e. the minimum, which is what EvaluateSlow computes - under the stated operand assumption (outside its box an operand is non-negative and at least the box distance; nowhere farther than the farthest corner); the 2- and 3-operand lemmas are kept; with a blend installed the sign can differ (known finding); per-path verification conditions generated from the SSA of /repo's working tree and discharged by z3 4.8.12 / z3 5.1.0.",
   design_ref="8.16",
   technique="contract-based deductive verification: weakest-precondition style VCs from go/ssa by symbolic execution, discharged by SMT (QF_NRA/LRA)"),
}

pending = {}  # property -> reason (filled below for everything not claimed)

NA = {
 "C09": "schedule / CPU-count / history quantification and byte-identity of third-party encoders cannot be expressed as function contracts (DESIGN.md 9)",
 "C12": "termination under fault sequences and goroutine counts over histories are liveness / whole-history properties outside contract reach (DESIGN.md 9)",
 "C19": "needs a global inductive invariant over mutually recursive octree stitching plus an external SVD; no per-function contract decides any sentence (DESIGN.md 9)",
}

props = [json.loads(l)["id"] for l in open("/verif/properties.jsonl")]
checks = []
for p in props:
    if p in claimed:
        c = claimed[p]
        checks.append({
          "property_id": p,
          "quick_cmd": f"./check {p} --tier quick",
          "thorough_cmd": f"./check {p} --tier thorough",
          "evidence_file": f"/verif/evidence/{p}.json",
          "replay_cmd_template": "./check --replay {path}",
          "engine": "govc",
          "level_claimed": {"category": "proof", "text": c["text"], "design_ref": c["design_ref"]},
          "level_note": LEVEL_NOTE,
          "technique": c["technique"],
        })
na = []
for p in props:
    if p in claimed: continue
    reason = NA.get(p, "not claimed in this revision: contracts for this property are not yet discharged by the engine (work in progress; see DESIGN.md 8)")
    na.append({"property_id": p, "reason": reason})

hook_commits = []
try:
    out = subprocess.check_output(["git","-C","/repo","log","--format=%H %s"], text=True)
    for line in out.splitlines():
        h, s = line.split(" ",1)
        if s.startswith("verif hook"):
            hook_commits.append(h)
except Exception:
    pass

m = {
 "version": 1,
 "setup_cmd": "cd /verif/engine && GOFLAGS=-mod=vendor GOPROXY=off GOSUMDB=off GOTOOLCHAIN=local go build -o /verif/bin/govc ./cmd/govc",
 "hooks": {
   "guard": "verif",
   "enable": "go/packages loads /repo with -tags verif; the tag only adds comment-only contract files <pkg>/verif_contracts.go (no executable code)",
   "baseline_off_cmd": "cd /repo && GOFLAGS=-mod=mod GOPROXY=off GOSUMDB=off GOTOOLCHAIN=local go test -vet=off -count=1 ./sdf ./render ./vec/v3",
   "source_commits": hook_commits,
   "add_only": True,
 },
 "engines": [{"name": "govc", "path": "/verif/engine", "serves_properties": sorted(claimed.keys()),
              "kind_free_text": "deductive verifier for the Go subset of sdfx: go/packages+go/ssa (x/tools v0.29.0, vendored) -> forward symbolic execution per function under contract -> per-path SMT-LIB2 VCs -> z3 4.8.12 / z3 5.1.0 / cvc5 race; contracts are //@ comment blocks in /repo/<pkg>/verif_contracts.go (build tag verif)"}],
 "checks": checks,
 "not_applicable": na,
 "notes": "See DESIGN.md. Known findings: /verif/known_findings.txt. Baseline of obligations that discharge on the unchanged tree: /verif/baseline_obligations.json.",
}
json.dump(m, open("/verif/MANIFEST.json","w"), indent=1)
print("claimed:", sorted(claimed.keys()))
