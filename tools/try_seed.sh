#!/bin/bash
# usage: try_seed.sh <worktree> <seed-id> <property> <demo-pkg-dir>
# 1. confirms the seeded change in its scratch worktree (compiles, suite passes, demo fails with / passes without)
# 2. applies the patch to /repo, runs the property's check, and undoes it
W=$1; ID=$2; P=$3; PKG=${4:-sdf}
export GOFLAGS=-mod=mod GOPROXY=off GOSUMDB=off GOTOOLCHAIN=local
set -u
cd $W || exit 2
echo "== confirm in $W"
cp OUT/patch.diff /tmp/$ID.patch
git checkout -q -- . 2>/dev/null; git checkout -q HEAD -- sdf/verif_contracts.go render/verif_contracts.go 2>/dev/null
rm -f */zz_seed_demo_test.go
git apply /tmp/$ID.patch || { echo "patch does not apply"; exit 2; }
go build ./... || { echo "does not compile"; exit 2; }
go test -vet=off -count=1 ./sdf ./render ./vec/v3 2>&1 | tail -3
cp OUT/demo_test.go $PKG/zz_seed_demo_test.go
echo "-- demo WITH change (expect FAIL):"; go test -vet=off -count=1 -run TestSeedDemo ./$PKG 2>&1 | tail -2
git apply -R /tmp/$ID.patch
echo "-- demo WITHOUT change (expect ok):"; go test -vet=off -count=1 -run TestSeedDemo ./$PKG 2>&1 | tail -2
rm -f $PKG/zz_seed_demo_test.go
echo "== run check $P against /repo with the patch"
cd /repo && git apply /tmp/$ID.patch && (cd /verif && ./check $P --no-evidence 2>&1 | grep -v "^  " | tail -6); git -C /repo checkout -- .
mkdir -p /verif/seeded/$ID && cp $W/OUT/patch.diff $W/OUT/meta.json /verif/seeded/$ID/ && cp $W/OUT/demo_test.go /verif/seeded/$ID/demo_test.go.txt
