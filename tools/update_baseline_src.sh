#!/bin/sh
# Refresh the snapshot of the verified source (maintenance only: run together with
# --update-baseline, on a tree on which every check passes).
set -e
cd /verif
rm -rf baseline_src; mkdir -p baseline_src
cp /repo/go.mod /repo/go.sum baseline_src/
for d in sdf render render/dc obj vec/v2 vec/v3 vec/v2i vec/v3i vec/p2 vec/conv; do
  [ -d /repo/$d ] || continue
  mkdir -p baseline_src/$d
  for f in /repo/$d/*.go; do
    case "$f" in *_test.go|*/verif_contracts.go) continue;; esac
    cp "$f" baseline_src/$d/
  done
done
du -sh baseline_src
