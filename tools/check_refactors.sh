#!/bin/sh
# Apply every kept behaviour-preserving change (refactors/<prop>_*.diff) to a scratch
# copy of /repo in turn and run the property's quick check on it: every one must stay quiet.
# Usage: tools/check_refactors.sh [dir-or-diff ...]   (default: /verif/refactors)
cd /verif
export GOFLAGS=-mod=mod GOPROXY=off GOSUMDB=off GOTOOLCHAIN=local
S=/var/tmp/verif-refac.$$
trap 'rm -rf $S' EXIT
args="$*"; [ -z "$args" ] && args=/verif/refactors
files=""
for a in $args; do
  if [ -d "$a" ]; then files="$files $(ls $a/*.diff 2>/dev/null)"; else files="$files $a"; fi
done
rc=0
for f in $files; do
  prop=$(basename $f | cut -c1-3)
  rm -rf $S; mkdir -p $S
  rsync -a --exclude .git --exclude examples --exclude docs --exclude files /repo/ $S/r/
  if ! (cd $S/r && patch -p1 -s < $f); then echo "ERROR $(basename $f): patch does not apply"; rc=1; continue; fi
  if ! (cd $S/r && go build ./sdf ./render ./obj 2>/dev/null); then echo "ERROR $(basename $f): does not build"; rc=1; continue; fi
  out=$(./check $prop --repo $S/r --no-evidence 2>&1); ec=$?
  if [ $ec -eq 0 ] && ! echo "$out" | grep -q VIOLATION; then
    echo "quiet $(basename $f) [$prop]"
  else
    echo "FALSE-ALARM $(basename $f) [$prop] exit=$ec: $(echo "$out" | grep -m3 'refuted obligation\|VIOLATION\|undecided\|engine' | cut -c1-220 | tr '\n' ' ')"; rc=1
  fi
done
exit $rc
