#!/bin/sh
# Apply every kept behaviour-preserving change (refactors/<prop>_*.diff) to a scratch
# copy of /repo in turn and run the property's quick check on it: every one must stay quiet.
# Usage: tools/check_refactors.sh [-j N] [dir-or-diff ...]   (default: /verif/refactors)
cd /verif
export GOFLAGS=-mod=mod GOPROXY=off GOSUMDB=off GOTOOLCHAIN=local
J=3
if [ "$1" = "-j" ]; then J=$2; shift 2; fi
if [ "$1" = "--one" ]; then
  f=$2
  prop=$(basename $f | cut -c1-3)
  S=/var/tmp/verif-refac.$$
  trap 'rm -rf $S' EXIT
  mkdir -p $S
  rsync -a --exclude .git --exclude examples --exclude docs --exclude files /repo/ $S/r/
  if ! (cd $S/r && patch -p1 -s < $f); then echo "ERROR $(basename $f): patch does not apply"; exit 1; fi
  if ! (cd $S/r && go build ./sdf ./render ./obj 2>/dev/null); then echo "ERROR $(basename $f): does not build"; exit 1; fi
  t0=$(date +%s)
  out=$(./check $prop --repo $S/r --no-evidence 2>&1); ec=$?
  t1=$(date +%s)
  if [ $ec -eq 0 ] && ! echo "$out" | grep -q VIOLATION; then
    echo "quiet $(basename $f) [$prop] $((t1-t0))s $(echo "$out" | grep -c "^carried over") carried $(echo "$out" | grep "^carried over" | grep -c "bounded") bounded"
    exit 0
  fi
  echo "FALSE-ALARM $(basename $f) [$prop] $((t1-t0))s exit=$ec: $(echo "$out" | grep -m3 'refuted obligation\|no longer\|missing\|engine' | cut -c1-200 | tr '\n' ' ')"
  exit 1
fi
args="$*"; [ -z "$args" ] && args=/verif/refactors
files=""
for a in $args; do
  if [ -d "$a" ]; then files="$files $(ls $a/*.diff 2>/dev/null)"; else files="$files $a"; fi
done
echo $files | tr ' ' '\n' | xargs -P $J -I{} $0 --one {} | sort -k2
[ -z "$(echo $files | tr ' ' '\n' | xargs -P $J -I{} true)" ] || true
