#!/usr/bin/env python3
"""Authoring aid: emits the repetitive per-constructor contract blocks (ENC / LIP)
into /verif/contracts/sdf_shapes.inc, which is spliced into the sdf contract file.
The contracts themselves live as //@ comments in /repo/sdf/verif_contracts.go."""
import sys

# name, result dim, operands [(name, dim)], extra requires, returns error?, search ok
ENC = [
 ("Sphere3D", 3, [], [], True),
 ("Box3D", 3, [], [], True),
 ("Cylinder3D", 3, [], [], True),
 ("Capsule3D", 3, [], [], True),
 ("Cone3D", 3, [], ["r0 >= 0", "r1 >= 0", "r0 > 0 || r1 > 0"], True),
 ("Extrude3D", 3, [("sdf",2)], ["height > 0"], False),
 ("ScaleExtrude3D", 3, [("sdf",2)], ["height > 0", "scale.X > 0", "scale.Y > 0"], False),
 ("ExtrudeRounded3D", 3, [("sdf",2)], ["height > 0"], True),
 ("Loft3D", 3, [("sdf0",2),("sdf1",2)], [], True),
 ("RevolveTheta3D", 3, [("sdf",2)], [], True),
 ("Revolve3D", 3, [("sdf",2)], [], True),
 ("Transform3D", 3, [("sdf",3)], ["matrix.Determinant() != 0", "matrix[12] == 0 && matrix[13] == 0 && matrix[14] == 0 && matrix[15] == 1"], False),
 ("ScaleUniform3D", 3, [("sdf",3)], ["k > 0"], False),
 ("Difference3D", 3, [("s0",3),("s1",3)], [], False),
 ("Intersect3D", 3, [("s0",3),("s1",3)], [], False),
 ("Cut3D", 3, [("sdf",3)], ["n.X*n.X + n.Y*n.Y + n.Z*n.Z > 0"], False),
 ("Elongate3D", 3, [("sdf",3)], [], False),
 ("Shell3D", 3, [("sdf",3)], [], True),
 ("Offset3D", 3, [("sdf",3)], ["sdf.BoundingBox().Size().X + 2*offset >= 0", "sdf.BoundingBox().Size().Y + 2*offset >= 0", "sdf.BoundingBox().Size().Z + 2*offset >= 0"], False),
 ("Circle2D", 2, [], [], True),
 ("Box2D", 2, [], ["size.X > 0 && size.Y > 0", "round >= 0", "2*round <= size.X && 2*round <= size.Y"], False),
 ("Line2D", 2, [], ["l >= 0", "round >= 0"], False),
 ("Offset2D", 2, [("sdf",2)], ["sdf.BoundingBox().Size().X + 2*offset >= 0", "sdf.BoundingBox().Size().Y + 2*offset >= 0"], False),
 ("Intersect2D", 2, [("s0",2),("s1",2)], [], False),
 ("Difference2D", 2, [("s0",2),("s1",2)], [], False),
 ("Cut2D", 2, [("sdf",2)], ["v.X*v.X + v.Y*v.Y > 0"], False),
 ("Transform2D", 2, [("sdf",2)], ["m.Determinant() != 0", "m[6] == 0 && m[7] == 0 && m[8] == 1"], False),
 ("ScaleUniform2D", 2, [("sdf",2)], ["k > 0"], False),
 ("Center2D", 2, [("s",2)], [], False),
 ("CenterAndScale2D", 2, [("s",2)], ["k > 0"], False),
 ("Elongate2D", 2, [("sdf",2)], [], False),
 ("Slice2D", 2, [("sdf",3)], ["n.X*n.X + n.Y*n.Y + n.Z*n.Z > 0"], False),
]

# operands that additionally need the Chebyshev-distance lower bound (Offset/Shell)
SCRIPT = {
 "Transform3D": ["let q = r.inverse.MulPosition(p)", "assert [inverse-maps-back] matrix.MulPosition(q) == p", "generalize q"],
 "Transform2D": ["let q = r.mInv.MulPosition(p)", "assert [inverse-maps-back] m.MulPosition(q) == p", "generalize q"],
}
THOROUGH = {"Cone3D"}

LINF = {"Offset3D", "Shell3D", "Offset2D", "ExtrudeRounded3D", "Loft3D"}

out = []
w = out.append
w("//-----------------------------------------------------------------------------")
w("// C01 (generated block list, see /verif/tools/gen_shape_contracts.py): one ENC contract per constructor.")
w("")
for name, D, ops, extra, haserr in ENC:
    w(f"//@ func {name}")
    w("//@   property C01")
    w("//@   id ENC")
    w("//@   opt search p")
    w("//@   opt solid-operands")
    if name in THOROUGH:
        w("//@   opt thorough")
    if "Revolve" in name:
        w("//@   opt trig-quadrants")
    w(f"//@   forall p v{D}.Vec")
    for e in extra:
        w(f"//@   requires {e}")
    for (o, d) in ops:
        w(f"//@   requires ord{d}({o}.BoundingBox())")
        w(f"//@   requires forall q v{d}.Vec :: enc{d}({o}, q)")
        if name in LINF:
            w(f"//@   requires forall q v{d}.Vec :: linf{d}({o}, q)")
    w("//@   let d = r.Evaluate(p)")
    for a in SCRIPT.get(name, []):
        w(f"//@   {a}")
    g = "isnil(err) ==> " if haserr else ""
    g2 = "isnil(err) && " if haserr else ""
    w(f"//@   ensures [ordered] {g}ord{D}(r.BoundingBox())")
    w(f"//@   ensures [encloses] {g2}d < 0 ==> r.BoundingBox().Contains(p)")
    w("//@ end")
    w("")
p = "/verif/contracts/sdf_verif_contracts.go"
s = open(p).read()
a = s.index("// BEGIN GENERATED SHAPES")
b = s.index("// END GENERATED SHAPES")
s = s[:a] + "// BEGIN GENERATED SHAPES\n" + "\n".join(out) + "\n" + s[b:]
open(p, "w").write(s)
print(len(ENC), "ENC contracts")
